"""Oracle for steady-state solutions: compares everything the library reports with the exact
tableau solution (documented reference directions) and re-checks Kirchhoff/potential-difference
certificates on the reported numbers themselves."""
from __future__ import annotations
from ..ref import tableau, floatmna
from .. import netdesc
from ..observe import call, raised

KAPPA_MAX = 1e8


def reference_from_ref(ref_net, features=None):
    """-> None if not well-posed, else dict(rep, kappa, tol, scales, ...)"""
    sol = tableau.solve_network(ref_net)
    if not sol['unique']:
        return None
    rep = tableau.reported(sol, ref_net)
    kappa, sc = floatmna.kappa_and_scales(ref_net)
    phimax = max([abs(v) for v in rep['phi'].values()] + [abs(v) for v in rep['V'].values()] + [0.0])
    imax_ref = max([abs(v) for v in rep['I'].values()] + [0.0])
    s_phi = max(phimax, sc['vmax'], sc['imax'] * sc['zmax'])
    s_i = max(imax_ref, sc['imax'], s_phi * sc['ymax'])
    feats = features or {}
    return {'rep': rep, 'kappa': kappa, 'tol': floatmna.tolerance(kappa), 's_phi': s_phi, 's_i': s_i,
            'trivial': phimax == 0 and imax_ref == 0, 'kinds': sol['kinds'], 'ref_net': ref_net,
            'features': {b['id']: feats.get(b['id'], b['kind']) for b in ref_net['branches']}}


def reference(desc):
    return reference_from_ref(netdesc.to_ref(desc), {b['id']: feature_of(b) for b in desc['branches']})


def feature_of(b):
    c = b['ctor']
    if c == 'voltage_source':
        c = 'ideal_v' if netdesc.is_zero(b.get('Z', 0)) else 'lin_v'
    elif c == 'current_source':
        c = 'ideal_i' if netdesc.is_zero(b.get('Y', 0)) else 'lin_i'
    return c


def compare(refd, getters, ctx, prefix, scale=1.0, power_factor=1.0, want_real=False, tol_extra=0.0):
    """getters: dict phi/V/I/P -> callable(id) on the library's solution object.
    scale: factor the library's numbers carry relative to the reference peak phasors (e.g. 1/sqrt 2).
    want_real: the library reports real parts only (DC analysis).
    Returns number of mismatches recorded."""
    rep, tol = refd['rep'], refd['tol'] + tol_extra
    ref_net = refd['ref_net']
    s_phi, s_i = refd['s_phi'] * abs(scale), refd['s_i'] * abs(scale)
    bad = 0

    def chk(cls, ident, got, exp, s, feature):
        nonlocal bad
        if raised(got):
            ctx.violation(f'{prefix}/exception/{got.key}', f'query {cls}({ident!r}) raised {got.text}',
                          {'class': cls, 'id': ident, 'feature': feature})
            bad += 1
            return
        try:
            g = complex(got)
        except Exception:
            ctx.violation(f'{prefix}/non-numeric/{cls}', f'{cls}({ident!r}) returned {got!r}', {'feature': feature})
            bad += 1
            return
        if want_real:
            exp = complex(exp.real)
        err = abs(g - exp)
        lim = tol * s
        ctx.maxstat(f'max_normalised_error_{cls}', err / s if s else 0.0)
        ctx.count('quantities_compared')
        if not (err <= lim):
            bad += 1
            ctx.violation(f'{prefix}/mismatch/{cls}/{feature}',
                          f'{cls}({ident!r}) = {g!r}, exact reference {exp!r} (|err|={err:.3g} > {lim:.3g})',
                          {'class': cls, 'id': ident, 'got': g, 'expected': exp, 'tol': lim, 'kappa': refd['kappa']})
    for n, v in rep['phi'].items():
        got = call(getters['phi'], n)
        isref = n == ref_net['ref']
        chk('potential', n, got, v * scale, s_phi, 'reference-node' if isref else 'node')
        if isref and not raised(got):
            try:
                if complex(got) != 0:
                    ctx.violation(f'{prefix}/reference-potential-nonzero', f'potential of the reference node is {got!r}', {})
                    bad += 1
            except Exception:
                pass
    for b in ref_net['branches']:
        bid = b['id']
        feat = refd['features'][bid]
        chk('voltage', bid, call(getters['V'], bid), rep['V'][bid] * scale, s_phi, feat)
        chk('current', bid, call(getters['I'], bid), rep['I'][bid] * scale, s_i, feat)
        if 'P' in getters:
            if want_real:
                pexp = complex((rep['V'][bid] * scale).real * (rep['I'][bid] * scale).real)
            else:
                pexp = rep['P'][bid] * abs(scale) ** 2 * power_factor
            chk('power', bid, call(getters['P'], bid), pexp, s_phi * s_i * power_factor, feat)
    return bad


def certificate(refd, getters, ctx, prefix, scale=1.0, want_real=False):
    """KCL at every node (including the reference node) and V = phi1 - phi2 on the REPORTED numbers."""
    tol = refd['tol']
    ref_net = refd['ref_net']
    s_phi, s_i = refd['s_phi'] * abs(scale), refd['s_i'] * abs(scale)
    inj = {}
    for b in ref_net['branches']:
        i = call(getters['I'], b['id'])
        v = call(getters['V'], b['id'])
        p1, p2 = call(getters['phi'], b['n1']), call(getters['phi'], b['n2'])
        if any(raised(x) for x in (i, v, p1, p2)):
            return
        phys = complex(i) * (-1 if b['kind'] in ('LV', 'LI') else 1)
        inj[b['n1']] = inj.get(b['n1'], 0) + phys
        inj[b['n2']] = inj.get(b['n2'], 0) - phys
        if abs(complex(v) - (complex(p1) - complex(p2))) > tol * s_phi:
            ctx.violation(f'{prefix}/certificate/voltage-not-potential-difference',
                          f'V({b["id"]!r}) = {v!r} but phi1 - phi2 = {complex(p1) - complex(p2)!r}', {})
    for n, r in inj.items():
        deg = sum(1 for b in ref_net['branches'] if n in (b['n1'], b['n2']))
        if abs(r) > tol * s_i * max(deg, 1) * 4:
            ctx.violation(f'{prefix}/certificate/kcl/{"reference-node" if n == ref_net["ref"] else "node"}',
                          f'reported currents do not balance at node {n!r}: residual {r!r}', {'residual': r})
    ctx.count('certificates_checked')
