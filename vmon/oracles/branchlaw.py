"""Oracle: does a library network element realise a given reference branch law?
Compared through the element protocol (Z, Y, V, I), so the Thevenin/Norton representation the
library happens to choose does not matter."""
from __future__ import annotations
import cmath, math
from ..ref.tableau import normalise


def _c(x):
    try:
        return complex(x)
    except Exception:
        return complex('nan')


def close(a, b, rel=1e-12, abs_=0.0):
    a, b = _c(a), _c(b)
    if a == b:
        return True
    return abs(a - b) <= max(rel * max(abs(a), abs(b)), abs_)


def check_element(elem, ref_branch, rel=1e-12, abs_src=0.0):
    """-> None if faithful else a short reason string."""
    from CircuitCalculator.Network import elements as elm
    kind, p = normalise(ref_branch)
    Z, Y, V, I = (getattr(elem, k) for k in ('Z', 'Y', 'V', 'I'))
    if kind == 'short':
        return None if elm.is_short_circuit(elem) else f'expected a short circuit, got Z={Z!r} V={V!r}'
    if kind == 'open':
        return None if elm.is_open_circuit(elem) else f'expected an open circuit, got Y={Y!r} I={I!r}'
    if kind == 'Z':
        if elm.is_active(elem):
            return f'passive impedance became an active element (V={V!r}, I={I!r})'
        return None if close(Z, complex(p['Z']), rel) else f'impedance {Z!r} != {complex(p["Z"])!r}'
    if kind == 'Y':
        if elm.is_active(elem):
            return f'passive admittance became an active element (V={V!r}, I={I!r})'
        return None if close(Y, complex(p['Y']), rel) else f'admittance {Y!r} != {complex(p["Y"])!r}'
    if kind == 'V':
        if not elm.is_ideal_voltage_source(elem):
            return f'expected an ideal voltage source, got Z={Z!r}'
        return None if close(V, complex(p['V']), rel, max(1e-15, abs_src)) else f'source voltage {V!r} != {complex(p["V"])!r}'
    if kind == 'I':
        if not elm.is_ideal_current_source(elem):
            return f'expected an ideal current source, got Y={Y!r}'
        return None if close(I, complex(p['I']), rel, max(1e-18, abs_src)) else f'source current {I!r} != {complex(p["I"])!r}'
    if kind == 'LV':
        if not close(Z, complex(p['Z']), rel):
            return f'internal impedance {Z!r} != {complex(p["Z"])!r}'
        return None if close(V, complex(p['V']), rel, max(1e-15, abs_src)) else f'source voltage {V!r} != {complex(p["V"])!r}'
    if kind == 'LI':
        if not close(Y, complex(p['Y']), rel):
            return f'internal admittance {Y!r} != {complex(p["Y"])!r}'
        return None if close(I, complex(p['I']), rel, max(1e-18, abs_src)) else f'source current {I!r} != {complex(p["I"])!r}'
    return f'unknown reference kind {kind}'
