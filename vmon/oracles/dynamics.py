"""Reference pieces for the dynamic (state-space / transient) properties C10-C12."""
from __future__ import annotations
import math
import numpy as np
from .. import circdesc
from ..ref import tableau, floatmna
from . import netsolve

IDEAL_SRC = ('dc_voltage_source', 'dc_current_source', 'ac_voltage_source', 'ac_current_source')


def is_vsrc(c):
    return c['ctor'].endswith('voltage_source')


def is_isrc(c):
    return c['ctor'].endswith('current_source')


def unit_response_network(cdesc, w, source_id):
    """reference network at angular frequency w with `source_id` at unit amplitude (phase 0) and every other source deactivated"""
    brs = []
    for c in cdesc['components']:
        if c['ctor'] == 'ground':
            continue
        base = {'id': c['id'], 'n1': c['nodes'][0], 'n2': c['nodes'][1]}
        if is_vsrc(c):
            brs.append({**base, 'kind': 'V', 'V': 1.0} if c['id'] == source_id else {**base, 'kind': 'short'})
        elif is_isrc(c):
            brs.append({**base, 'kind': 'I', 'I': 1.0} if c['id'] == source_id else {**base, 'kind': 'open'})
        else:
            brs.append(circdesc.ref_branch(c, w))
    return {'ref': circdesc.ground_of(cdesc), 'branches': brs}


def construction_kappa(cdesc):
    """condition number of the DC nodal matrix the state-space builder inverts (capacitors as current injections, inductors and
    voltage sources as voltage-source rows): the floating-point error of A, B, C, D scales with it, whatever the probe frequency"""
    from ..ref import floatmna
    brs = []
    for c in cdesc['components']:
        if c['ctor'] == 'ground':
            continue
        base = {'id': c['id'], 'n1': c['nodes'][0], 'n2': c['nodes'][1]}
        if is_vsrc(c) or c['ctor'] == 'inductance':
            brs.append({**base, 'kind': 'V', 'V': 1.0})
        elif is_isrc(c) or c['ctor'] == 'capacitor':
            brs.append({**base, 'kind': 'I', 'I': 1.0})
        else:
            brs.append(circdesc.ref_branch(c, 0.0))
    try:
        return floatmna.kappa_and_scales({'ref': circdesc.ground_of(cdesc), 'branches': brs})[0]
    except Exception:
        return float('inf')


def _acyclic(edges):
    parent = {}

    def find(x):
        parent.setdefault(x, x)
        while parent[x] != x:
            parent[x] = parent[parent[x]]
            x = parent[x]
        return x
    for a, b in edges:
        ra, rb = find(a), find(b)
        if ra == rb:
            return False
        parent[ra] = rb
    return True


def _connected(nodes, edges):
    if not nodes:
        return True
    adj = {n: set() for n in nodes}
    for a, b in edges:
        adj[a].add(b); adj[b].add(a)
    seen, fr = {nodes[0]}, [nodes[0]]
    while fr:
        n = fr.pop()
        for m in adj[n]:
            if m not in seen:
                seen.add(m); fr.append(m)
    return len(seen) == len(nodes)


def non_degenerate(cdesc):
    """exact decision of the C10 domain: full-degree characteristic polynomial and no root at s = 0.
    -> (ok, reason)"""
    comps = [c for c in cdesc['components'] if c['ctor'] != 'ground']
    nodes = circdesc.nodes({'components': comps})
    cv = [(c['nodes'][0], c['nodes'][1]) for c in comps if c['ctor'] == 'capacitor' or is_vsrc(c)]
    if any(a == b for a, b in cv) or not _acyclic(cv):
        return False, 'capacitor/voltage-source loop'
    rest = [(c['nodes'][0], c['nodes'][1]) for c in comps if not (c['ctor'] == 'inductance' or is_isrc(c))]
    if not _connected(nodes, rest):
        return False, 'inductor/current-source cutset'
    # a purely resistive path must tie everything down at s -> infinity as well: C short / L open
    hf = {'ref': circdesc.ground_of(cdesc), 'branches': []}
    dc = {'ref': circdesc.ground_of(cdesc), 'branches': []}
    for c in comps:
        base = {'id': c['id'], 'n1': c['nodes'][0], 'n2': c['nodes'][1]}
        if c['ctor'] == 'capacitor':
            dc['branches'].append({**base, 'kind': 'open'}); hf['branches'].append({**base, 'kind': 'short'})
        elif c['ctor'] == 'inductance':
            dc['branches'].append({**base, 'kind': 'short'}); hf['branches'].append({**base, 'kind': 'open'})
        elif is_vsrc(c):
            dc['branches'].append({**base, 'kind': 'short'}); hf['branches'].append({**base, 'kind': 'short'})
        elif is_isrc(c):
            dc['branches'].append({**base, 'kind': 'open'}); hf['branches'].append({**base, 'kind': 'open'})
        else:
            b = circdesc.ref_branch(c, 0.0)
            dc['branches'].append(b); hf['branches'].append(b)
    if not tableau.solve_network(dc)['unique']:
        return False, 'root at s = 0 (DC system singular)'
    if not tableau.solve_network(hf)['unique']:
        return False, 'degenerate at s -> infinity'
    return True, ''


def transfer(A, B, C, D, w):
    n = A.shape[0]
    M = 1j * w * np.eye(n) - A
    return C @ np.linalg.solve(M, B) + D, (np.linalg.cond(M) if n else 1.0)
