"""Deep structural fingerprints used by the purity sentinels (C16, C17, C20)."""
from __future__ import annotations
import dataclasses, math, types


def fp(x, _depth=0, _seen=None):
    """Type-aware, NaN-safe, numpy-aware structural fingerprint (a nested tuple, comparable with ==)."""
    if _seen is None:
        _seen = set()
    if _depth > 40:
        return ('deep',)
    if x is None or isinstance(x, (bool, int, str, bytes)):
        return (type(x).__name__, x)
    if isinstance(x, float):
        return ('float', 'nan' if x != x else x.hex())
    if isinstance(x, complex):
        return ('complex', fp(x.real), fp(x.imag))
    try:
        import numpy as np
        if isinstance(x, np.ndarray):
            return ('ndarray', x.shape, str(x.dtype), tuple(fp(v, _depth + 1, _seen) for v in x.reshape(-1).tolist()))
        if isinstance(x, np.generic):
            return ('npscalar', str(x.dtype), fp(x.item(), _depth + 1, _seen))
    except ImportError:  # pragma: no cover
        pass
    oid = id(x)
    if oid in _seen:
        return ('cycle',)
    _seen = _seen | {oid}
    if isinstance(x, dict):
        return ('dict', tuple((fp(k, _depth + 1, _seen), fp(v, _depth + 1, _seen)) for k, v in x.items()))   # order matters
    if isinstance(x, (list, tuple)):
        return (type(x).__name__, tuple(fp(v, _depth + 1, _seen) for v in x))
    if isinstance(x, (set, frozenset)):
        return (type(x).__name__, tuple(sorted(repr(fp(v, _depth + 1, _seen)) for v in x)))
    if dataclasses.is_dataclass(x) and not isinstance(x, type):
        return ('dc', type(x).__name__, tuple((f.name, fp(getattr(x, f.name, None), _depth + 1, _seen)) for f in dataclasses.fields(x)))
    if isinstance(x, (types.FunctionType, types.BuiltinFunctionType, types.MethodType, type)):
        return ('callable', getattr(x, '__qualname__', repr(x)))
    d = getattr(x, '__dict__', None)
    if isinstance(d, dict):
        return ('obj', type(x).__name__, tuple((k, fp(v, _depth + 1, _seen)) for k, v in sorted(d.items())))
    return ('repr', type(x).__name__, repr(x))


def mutable_defaults(module_names):
    """fingerprints of __defaults__/__kwdefaults__ of every function and of mutable module-level tables of the named modules"""
    import importlib, inspect
    out = {}
    for mn in module_names:
        try:
            m = importlib.import_module(mn)
        except Exception:
            continue
        for name, obj in vars(m).items():
            if inspect.isfunction(obj):
                obj = inspect.unwrap(obj)          # look through contract wrappers at the repository's own function
            if inspect.isfunction(obj) and obj.__module__ == mn:
                if obj.__defaults__ or obj.__kwdefaults__:
                    out[f'{mn}.{name}.__defaults__'] = fp((obj.__defaults__, obj.__kwdefaults__))
            elif isinstance(obj, (dict, list, set)) and not name.startswith('__'):
                out[f'{mn}.{name}'] = fp(obj)
            elif inspect.isclass(obj) and obj.__module__ == mn:
                for an, av in vars(obj).items():
                    if inspect.isfunction(av) and (av.__defaults__ or av.__kwdefaults__):
                        out[f'{mn}.{name}.{an}.__defaults__'] = fp((av.__defaults__, av.__kwdefaults__))
    return out
