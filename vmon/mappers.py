"""User-supplied index numberings (the library's NetworkMapper / SourceIndexMapper extension point).

Physical results must not depend on how nodes and sources are numbered inside the matrices.  `permuted(base, seed)`
returns a mapper that numbers the same labels as the library's default mapper `base`, in a seeded random order."""
from __future__ import annotations
import random


def permuted(base, seed):
    def mapper(network):
        from CircuitCalculator.Network.NodalAnalysis.label_mapping import LabelMapping
        m = base(network)
        keys = sorted(m.mapping)
        idx = list(range(len(keys)))
        random.Random(f'{seed}/{len(keys)}').shuffle(idx)
        return LabelMapping({k: i for k, i in zip(keys, idx)})
    mapper.__name__ = f'permuted_{getattr(base, "__name__", "mapper")}'
    return mapper


def custom_numbering(seed):
    """-> dict(node_mapper, current_source_mapper, voltage_source_mapper) of permuted default mappers"""
    from CircuitCalculator.Network.NodalAnalysis import label_mapping as lm
    return {'node_mapper': permuted(lm.default_node_mapper, f'{seed}/n'),
            'current_source_mapper': permuted(lm.alphabetic_current_source_mapper, f'{seed}/i'),
            'voltage_source_mapper': permuted(lm.alphabetic_voltage_source_mapper, f'{seed}/v')}
