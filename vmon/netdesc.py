"""Plain-JSON network descriptions and their two readings:
   to_lib(desc)  -> the library's Network built with the library's own element constructors
   to_ref(desc)  -> the reference tableau description (vmon.ref.tableau)

branch = {'id', 'n1', 'n2', 'ctor', ...params}; numbers are floats or [re, im].
ctor in: resistor(R) conductor(G) impedance(Z) admittance(Y) load_v(P,V_ref[,Q]) load_i(P,I_ref[,Q])
         voltage_source(V[,Z]) current_source(I[,Y]) open_circuit short_circuit
"""
from __future__ import annotations


def cx(x):
    if isinstance(x, (list, tuple)):
        return complex(x[0], x[1])
    return x


_NUMBER_TYPE = [None]


def typed(x):
    """the same number in the Python / numpy type selected by the description's 'number_type' (None, 'int', 'numpy', 'npint'):
    users write R=10 as often as R=10.0, and values computed with numpy arrive as numpy scalars"""
    mode = _NUMBER_TYPE[0]
    if mode is None or isinstance(x, bool) or not isinstance(x, (int, float, complex)):
        return x
    import numpy as np
    if isinstance(x, complex):
        return np.complex128(x) if mode in ('numpy', 'npint') else x
    integral = float(x).is_integer() and abs(x) < 2 ** 53
    if mode == 'int':
        return int(x) if integral else x
    if mode == 'npint':
        return np.int64(int(x)) if integral else np.float64(x)
    return np.float64(x)


def is_zero(x):
    x = cx(x)
    return x == 0


def ref_branch(b):
    c = b['ctor']
    base = {'id': b['id'], 'n1': b['n1'], 'n2': b['n2']}
    if c == 'resistor':
        return {**base, 'kind': 'Z', 'Z': b['R']}
    if c == 'conductor':
        return {**base, 'kind': 'Y', 'Y': b['G']}
    if c == 'impedance':
        return {**base, 'kind': 'Z', 'Z': b['Z']}
    if c == 'admittance':
        return {**base, 'kind': 'Y', 'Y': b['Y']}
    if c == 'load_v':
        s = complex(b['P'], b.get('Q', 0.0)) / b['V_ref'] ** 2
        return {**base, 'kind': 'Y', 'Y': [s.real, s.imag]}
    if c == 'load_i':
        s = complex(b['P'], b.get('Q', 0.0)) / b['I_ref'] ** 2
        return {**base, 'kind': 'Z', 'Z': [s.real, s.imag]}
    if c == 'voltage_source':
        z = b.get('Z', 0)
        if is_zero(z):
            return {**base, 'kind': 'V', 'V': b['V']}
        if is_zero(b['V']):
            return {**base, 'kind': 'Z', 'Z': z}
        return {**base, 'kind': 'LV', 'V': b['V'], 'Z': z}
    if c == 'current_source':
        y = b.get('Y', 0)
        if is_zero(y):
            return {**base, 'kind': 'I', 'I': b['I']}
        if is_zero(b['I']):
            return {**base, 'kind': 'Y', 'Y': y}
        return {**base, 'kind': 'LI', 'I': b['I'], 'Y': y}
    if c == 'open_circuit':
        return {**base, 'kind': 'open'}
    if c == 'short_circuit':
        return {**base, 'kind': 'short'}
    raise ValueError(c)


def to_ref(desc):
    return {'ref': desc['ref'], 'branches': [ref_branch(b) for b in desc['branches']]}


def lib_element(b):
    from CircuitCalculator.Network import elements as elm
    c, n = b['ctor'], b['id']
    if c == 'resistor':
        return elm.resistor(n, typed(cx(b['R'])))
    if c == 'conductor':
        return elm.conductor(n, typed(cx(b['G'])))
    if c == 'impedance':
        return elm.impedance(n, typed(cx(b['Z'])))
    if c == 'admittance':
        return elm.admittance(n, typed(cx(b['Y'])))
    if c == 'load_v':
        return elm.load(n, P=b['P'], V_ref=b['V_ref'], Q=b.get('Q', 0))
    if c == 'load_i':
        return elm.load(n, P=b['P'], I_ref=b['I_ref'], Q=b.get('Q', 0))
    if c == 'voltage_source':
        if 'Z' in b:
            return elm.voltage_source(n, typed(cx(b['V'])), typed(cx(b['Z'])))
        return elm.voltage_source(n, typed(cx(b['V'])))
    if c == 'current_source':
        if 'Y' in b:
            return elm.current_source(n, typed(cx(b['I'])), typed(cx(b['Y'])))
        return elm.current_source(n, typed(cx(b['I'])))
    if c == 'open_circuit':
        return elm.open_circuit(n)
    if c == 'short_circuit':
        return elm.short_circuit(n)
    raise ValueError(c)


def to_lib(desc):
    from CircuitCalculator.Network.network import Network, Branch
    _NUMBER_TYPE[0] = desc.get('number_type')
    try:
        # every label is handed over as a string object of its own (as after reading a file): equal labels are not identical objects
        fresh = lambda s: ''.join(list(s)) if isinstance(s, str) and len(s) > 1 else s
        return Network([Branch(fresh(b['n1']), fresh(b['n2']), lib_element(b)) for b in desc['branches']], node_zero_label=fresh(desc['ref']))
    finally:
        _NUMBER_TYPE[0] = None


SOURCE_CTORS = ('voltage_source', 'current_source')


def is_source(b):
    if b['ctor'] == 'voltage_source':
        return not is_zero(b['V'])
    if b['ctor'] == 'current_source':
        return not is_zero(b['I'])
    return False


def nodes(desc):
    out = []
    for b in desc['branches']:
        for n in (b['n1'], b['n2']):
            if n not in out:
                out.append(n)
    return out


def signature(desc):
    """Canonical-ish signature: graph shape up to node names (degree-refined), ctor/orientation
    pattern, position of the reference node, label-order class."""
    ns = nodes(desc)
    deg = {n: 0 for n in ns}
    for b in desc['branches']:
        deg[b['n1']] += 1
        deg[b['n2']] += 1
    edges = sorted((tuple(sorted((deg[b['n1']], deg[b['n2']]))), b['ctor'], deg[b['n1']] <= deg[b['n2']],
                    b['n1'] == desc['ref'], b['n2'] == desc['ref'],
                    'c' if any(isinstance(v, (list, tuple)) for v in b.values()) else 'r') for b in desc['branches'])
    ids_sorted = sorted(b['id'] for b in desc['branches'])
    order = tuple(ids_sorted.index(b['id']) for b in desc['branches'])
    nsorted = sorted(ns)
    return repr((len(ns), edges, order[:6], nsorted.index(desc['ref']) if desc['ref'] in nsorted else -1))
