"""Observation helpers: call the real code, capture the outcome (value or exception) as an event."""
from __future__ import annotations
import os, traceback, warnings
from .bootstrap import REPO

_SRC = os.path.realpath(os.path.join(REPO, 'src'))


class Raised:
    """An exception raised by the library, kept as an observation."""
    def __init__(self, exc):
        self.exc = exc
        self.type = type(exc).__name__
        self.where = where(exc)
        self.text = f'{self.type}: {exc}'[:300]

    @property
    def key(self):
        return f'{self.type}@{self.where}'

    def __repr__(self):
        return f'<Raised {self.key} {self.text!r}>'


def where(exc) -> str:
    """module.function of the innermost frame that lies inside the repository sources."""
    tb = traceback.extract_tb(exc.__traceback__)
    for fr in reversed(tb):
        fn = os.path.realpath(fr.filename)
        if fn.startswith(_SRC):
            mod = os.path.relpath(fn, _SRC)[:-3].replace(os.sep, '.').replace('CircuitCalculator.', '')
            return f'{mod}.{fr.name}'
    return 'outside-repo'


def call(fn, *a, **k):
    """Returns the value, or a Raised observation.  Numpy/runtime warnings are silenced (telemetry only)."""
    with warnings.catch_warnings():
        warnings.simplefilter('ignore')
        try:
            import numpy as np
            with np.errstate(all='ignore'):
                return fn(*a, **k)
        except Exception as e:  # noqa: BLE001 - every library exception is an observation
            return Raised(e)


def raised(x) -> bool:
    return isinstance(x, Raised)
