"""Seeded generators of network descriptions (see vmon.netdesc)."""
from __future__ import annotations
import itertools, math

NODE_POOL = ['0', '1', '2', '9', '10', '11', 'A', 'B', 'a', 'b', 'n1', 'n10', 'n2', 'Is', 'Vs', 'gnd', 'GND', 'x', 'X',
             'Ω', 'µ', ' ', '_', '00', '-1', 'node', 'Z', 'L']
ID_POOL = ['R1', 'R2', 'R10', 'R9', 'Rx', 'G1', 'Z1', 'Y1', 'Vs', 'Vq', 'V1', 'V10', 'Is', 'Iq', 'I1', 'I10', 'A', 'B', 'Z', 'a', 'z',
           'L1', 'L2', 'C1', 'C2', '1', '2', '10', '9', 'Ω', 'src', 'load', 'U', 'Us', 'q', 'R', 'I', 'V', 'é', '_', 'i1', 'u1', 'K', 'M']
MANT = [1.0, 1.5, 2.2, 3.3, 4.7, 6.8, 2.0, 5.0, 8.2, 1.2]

PASSIVE = ['resistor', 'conductor', 'impedance', 'admittance', 'load_v', 'load_i']
KINDS = PASSIVE + ['ideal_v', 'ideal_i', 'lin_v', 'lin_i']


# label quadruples whose pairwise concatenations collide ('1'+'12' == '11'+'2'): a lookup keyed by joined labels confuses two node pairs
COLLIDING = [['1', '12', '11', '2'], ['a', 'bc', 'ab', 'c'], ['n1', '0', 'n', '10'], ['1', '23', '12', '3']]


def pick_labels(rng, pool, k):
    if pool is NODE_POOL and k >= 4 and rng.random() < 0.12:
        fam = list(rng.choice(COLLIDING))
        rest = [x for x in rng.sample(pool, k) if x not in fam][:k - 4]
        out = fam + rest
        rng.shuffle(out)
        return out
    return rng.sample(pool, k)


def value(rng, lo_dec, hi_dec, exact=False):
    d = rng.randint(lo_dec, hi_dec)
    if exact:
        return float(rng.choice([1, 2, 4, 8, 3, 5, 6])) * (2.0 ** rng.randint(-3, 3))
    m = rng.choice(MANT) if rng.random() < 0.7 else round(rng.uniform(1, 10), rng.randint(1, 6))
    return m * 10.0 ** d


def cvalue(rng, lo, hi, quadrants=True, exact=False):
    mag = value(rng, lo, hi, exact)
    if exact:
        re = mag * rng.choice([1, -1] if quadrants else [1])
        im = value(rng, lo, hi, True) * rng.choice([1, -1])
        return [re, im]
    ang = rng.uniform(-math.pi, math.pi) if quadrants else rng.uniform(-1.4, 1.4)
    return [mag * math.cos(ang), mag * math.sin(ang)]


def make_branch(rng, kind, bid, n1, n2, dec, cplx, exact=False):
    lo, hi = dec
    b = {'id': bid, 'n1': n1, 'n2': n2}
    sgn = rng.choice([1, -1])

    def pv():   # passive real value
        return value(rng, lo, hi, exact)

    def sv(scale_lo=-1, scale_hi=1):  # source value
        if cplx:
            return cvalue(rng, scale_lo, scale_hi, True, exact)
        return sgn * value(rng, scale_lo, scale_hi, exact)
    if kind == 'resistor':
        b.update(ctor='resistor', R=pv())
    elif kind == 'conductor':
        b.update(ctor='conductor', G=1.0 / pv() if not exact else pv())
    elif kind == 'impedance':
        b.update(ctor='impedance', Z=cvalue(rng, lo, hi, rng.random() < 0.15, exact) if cplx else pv())
    elif kind == 'admittance':
        if cplx:
            y = cvalue(rng, -hi, -lo, rng.random() < 0.15, exact)
        else:
            y = pv() if exact else 1.0 / pv()
        b.update(ctor='admittance', Y=y)
    elif kind == 'load_v':
        b.update(ctor='load_v', P=value(rng, 0, 2, exact), V_ref=value(rng, 0, 2, exact))
        if cplx and rng.random() < 0.5:
            # (the value is drawn to keep the random stream, but not used: no statement fixes the sign of Q of a voltage-rated load,
            # and the library's Y = (P + jQ)/V^2 - the conjugate of what its own current-rated form implies - must not become the
            # oracle's law: a repaired library would then be flagged)
            rng.choice([1, -1]) * value(rng, 0, 2, exact)
    elif kind == 'load_i':
        b.update(ctor='load_i', P=value(rng, 0, 2, exact), I_ref=value(rng, -2, 0, exact))
        if cplx and rng.random() < 0.5:
            b['Q'] = rng.choice([1, -1]) * value(rng, 0, 2, exact)
    elif kind == 'ideal_v':
        b.update(ctor='voltage_source', V=sv())
        if rng.random() < 0.3:
            b['Z'] = 0
    elif kind == 'ideal_i':
        b.update(ctor='current_source', I=sv(-3, -1))
        if rng.random() < 0.3:
            b['Y'] = 0
    elif kind == 'lin_v':
        b.update(ctor='voltage_source', V=sv(), Z=(cvalue(rng, lo, hi, False, exact) if cplx and rng.random() < 0.5 else pv()))
    elif kind == 'lin_i':
        b.update(ctor='current_source', I=sv(-3, -1),
                 Y=(cvalue(rng, -hi, -lo, False, exact) if cplx and rng.random() < 0.5 else (pv() if exact else 1.0 / pv())))
    elif kind == 'open':
        b.update(ctor='open_circuit')
    elif kind == 'short':
        b.update(ctor='short_circuit')
    else:
        raise ValueError(kind)
    return b


def random_topology(rng, n_nodes, n_branches):
    """connected multigraph as list of (i, j) node index pairs, random orientation."""
    edges = []
    order = list(range(n_nodes))
    rng.shuffle(order)
    for k in range(1, n_nodes):
        edges.append((order[k], order[rng.randrange(k)]))
    while len(edges) < n_branches:
        i, j = rng.sample(range(n_nodes), 2)
        edges.append((i, j))
    rng.shuffle(edges)
    return [(i, j) if rng.random() < 0.5 else (j, i) for i, j in edges]


def random_network(rng, max_nodes=8, max_branches=14, cplx=None, kinds=KINDS, n_sources=None, exact=False,
                   hostile_labels=True, weights=None):
    n_nodes = rng.randint(2, max_nodes)
    n_br = rng.randint(max(n_nodes - 1, 2), min(max_branches, max(n_nodes + 4, 4)))
    topo = random_topology(rng, n_nodes, n_br)
    if cplx is None:
        cplx = rng.random() < 0.4
    lo = rng.randint(-2, 2)
    src_scale = 1.0
    r = rng.random()
    if r < 0.08:                       # extreme impedance levels (GOhm / nano-ohm ranges): absolute-tolerance slips show up here
        lo = rng.choice([-9, -8, -7, 6, 7, 8])
    elif r < 0.16:                     # tiny or huge excitations (nA, nV, MV): the solution must simply scale
        src_scale = rng.choice([1e-9, 1e-12, 1e-7, 1e6])
    dec = (lo, lo + rng.randint(0, 3))
    if hostile_labels:
        nl = pick_labels(rng, NODE_POOL, n_nodes)
        ids = pick_labels(rng, ID_POOL, n_br)
    else:
        nl = [str(k) for k in range(n_nodes)]
        ids = [f'E{k}' for k in range(n_br)]
    src_kinds = [k for k in kinds if k in ('ideal_v', 'ideal_i', 'lin_v', 'lin_i')]
    pas_kinds = [k for k in kinds if k not in src_kinds]
    if n_sources is None:
        n_sources = rng.choice([1, 1, 2, 2, 3])
    n_sources = min(n_sources, n_br - 1) if pas_kinds else n_br
    src_pos = set(rng.sample(range(n_br), n_sources)) if src_kinds else set()
    branches = []
    for k, (i, j) in enumerate(topo):
        kind = rng.choice(src_kinds) if k in src_pos else rng.choice(pas_kinds)
        b = make_branch(rng, kind, ids[k], nl[i], nl[j], dec, cplx, exact)
        if src_scale != 1.0:
            for key in ('V', 'I'):
                if key in b and b['ctor'] in ('voltage_source', 'current_source'):
                    b[key] = [v * src_scale for v in b[key]] if isinstance(b[key], list) else b[key] * src_scale
        branches.append(b)
    # number types: one description in four is handed to the library as Python ints / numpy scalars instead of floats (chosen from
    # the description itself, so that the random stream of everything else is unchanged)
    k = (len(branches) * 7 + sum(len(str(b['id'])) for b in branches)) % 8
    desc = {'ref': rng.choice(nl), 'branches': branches}
    if k < 3:
        desc['number_type'] = ('int', 'numpy', 'npint')[k]
    return desc


def small_topologies(max_nodes=3, max_branches=4):
    """All connected multigraphs on <= max_nodes labelled nodes with <= max_branches branches
    (as multisets of unordered pairs), every node used."""
    out = []
    for n in range(2, max_nodes + 1):
        pairs = list(itertools.combinations(range(n), 2))
        for nb in range(n - 1, max_branches + 1):
            for combo in itertools.combinations_with_replacement(pairs, nb):
                used = set(x for p in combo for x in p)
                if len(used) != n:
                    continue
                # connectivity
                comp = {0}
                changed = True
                while changed:
                    changed = False
                    for a, b in combo:
                        if (a in comp) != (b in comp):
                            comp.update((a, b)); changed = True
                if len(comp) == n:
                    out.append((n, combo))
    return out


def add_salt(rng, desc, n_open=0, n_short=0):
    """Add open and short branches (for C16). Opens go between existing nodes. Shorts: node splitting (a branch terminal is
    re-attached to a fresh node that is shorted to the old one -> chains and stars), shorts in parallel to an existing short,
    and shorts across an existing passive branch (which becomes a self-loop when contracted)."""
    import copy
    d = copy.deepcopy(desc)

    def nodes_now():
        ns = []
        for b in d['branches']:
            for n in (b['n1'], b['n2']):
                if n not in ns:
                    ns.append(n)
        return ns
    used_ids = {b['id'] for b in d['branches']}
    free_ids = [i for i in ['S1', 'S2', 'S3', 'S4', 'S5', 'S6', 'O1', 'O2', 'O3', 'O4', 'O5', 'sh', 'op', '0s', 'zs', 'As'] + ID_POOL if i not in used_ids]
    rng.shuffle(free_ids)
    free_nodes = [n for n in NODE_POOL + ['s1', 's2', 's3', 's4', 's5', 's6', '!', '~'] if n not in nodes_now()]
    rng.shuffle(free_nodes)
    for _ in range(n_open):
        ns = nodes_now()
        a, b = rng.sample(ns, 2) if len(ns) >= 2 else (ns[0], ns[0])
        d['branches'].insert(rng.randrange(len(d['branches']) + 1), {'id': free_ids.pop(), 'n1': a, 'n2': b, 'ctor': 'open_circuit'})
    for _ in range(n_short):
        r = rng.random()
        shorts = [b for b in d['branches'] if b['ctor'] == 'short_circuit']
        if r < 0.6 or not d['branches']:
            br = rng.choice(d['branches'])
            end = rng.choice(['n1', 'n2'])
            old, new = br[end], free_nodes.pop()
            br[end] = new
            pair = (old, new) if rng.random() < 0.5 else (new, old)
            d['branches'].insert(rng.randrange(len(d['branches']) + 1), {'id': free_ids.pop(), 'n1': pair[0], 'n2': pair[1], 'ctor': 'short_circuit'})
        elif r < 0.75 and shorts:
            sb = rng.choice(shorts)
            pair = (sb['n1'], sb['n2']) if rng.random() < 0.5 else (sb['n2'], sb['n1'])
            d['branches'].insert(rng.randrange(len(d['branches']) + 1), {'id': free_ids.pop(), 'n1': pair[0], 'n2': pair[1], 'ctor': 'short_circuit'})
        else:
            cand = [b for b in d['branches'] if b['ctor'] in ('resistor', 'conductor', 'impedance', 'admittance') and b['n1'] != b['n2']]
            if not cand:
                continue
            pb = rng.choice(cand)
            pair = (pb['n1'], pb['n2']) if rng.random() < 0.5 else (pb['n2'], pb['n1'])
            d['branches'].insert(rng.randrange(len(d['branches']) + 1), {'id': free_ids.pop(), 'n1': pair[0], 'n2': pair[1], 'ctor': 'short_circuit'})
    return d


def add_self_loops(r2, d, n=None):
    """append 1-2 elements whose two terminals sit on the same node (a component bridged by a wire): it carries no voltage, a passive
    one no current, and it must not influence the rest of the network (only kinds that keep the network well-posed)"""
    from .. import netdesc
    nodes_ = netdesc.nodes(d)
    used = {b['id'] for b in d['branches']}
    for j in range(n or r2.randint(1, 2)):
        node = r2.choice(nodes_)
        kind = r2.choice(['resistor', 'conductor', 'impedance', 'admittance', 'current_source', 'current_source_lossy', 'voltage_source_lossy'])
        bid = next(i for i in (f'loop{j}', f'loop{j}x', f'lp{j}') if i not in used)
        used.add(bid)
        b = {'id': bid, 'n1': node, 'n2': node}
        v = value(r2, 0, 3)
        if kind == 'resistor':
            b.update(ctor='resistor', R=v)
        elif kind == 'conductor':
            b.update(ctor='conductor', G=1 / v)
        elif kind == 'impedance':
            b.update(ctor='impedance', Z=[v, -v / 3])
        elif kind == 'admittance':
            b.update(ctor='admittance', Y=[1 / v, 0.2 / v])
        elif kind == 'current_source':
            b.update(ctor='current_source', I=value(r2, -2, 0))
        elif kind == 'current_source_lossy':
            b.update(ctor='current_source', I=value(r2, -2, 0), Y=1 / v)
        else:
            b.update(ctor='voltage_source', V=value(r2, 0, 1), Z=v)
        d['branches'].insert(r2.randrange(len(d['branches']) + 1), b)
    return d
