"""Drawing programs (plain JSON) over a grid, their construction with the library's schemdraw symbols, and an independent
'turtle' model that computes the netlist a drawing depicts (union-find over coincident terminals and wire endpoints).

program = {'unit': float, 'step': float, 'offset': [dx, dy], 'rot': 0..3,
           'symbols': [ {'sym': <class name in SimpleCircuit.Elements>, 'name', 'args': {...}, 'p': [x, y], 'q': [x, y], 'reverse': bool}
                        {'sym': 'Line', 'p', 'q'} | {'sym': 'LabeledLine', 'name', 'p', 'q', 'reverse'}
                        {'sym': 'LabelNode', 'name', 'at': [x, y]} | {'sym': 'Ground', 'at': [x, y], 'name'?} ]}
Grid coordinates are small rationals (integers or k/100); the physical position is rot(step * (x, y)) + offset.
"""
from __future__ import annotations
import copy, math
from ..gen import networks as G

TWO_TERMINAL = {
    # symbol class        -> (component ctor of the intended netlist, kind)
    'Resistor': 'resistor', 'Conductance': 'conductance', 'Impedance': 'impedance', 'Capacitor': 'capacitor', 'Inductance': 'inductance',
    'Lamp': 'lamp', 'Switch': 'resistor', 'LabeledLine': 'short_circuit',
    'VoltageSource': 'dc_voltage_source', 'CurrentSource': 'dc_current_source',
    'ComplexVoltageSource': 'complex_voltage_source', 'ComplexCurrentSource': 'complex_current_source',
    'ACVoltageSource': 'ac_voltage_source', 'ACCurrentSource': 'ac_current_source',
    'RectVoltageSource': 'periodic_voltage_source', 'RectCurrentSource': 'periodic_current_source',
    'TriangleVoltageSource': 'periodic_voltage_source', 'TriangleCurrentSource': 'periodic_current_source',
    'SawtoothVoltageSource': 'periodic_voltage_source', 'SawtoothCurrentSource': 'periodic_current_source',
}
WAVE_OF = {'Rect': 'rect', 'Triangle': 'tri', 'Sawtooth': 'saw'}
SOURCE_SYMS = [s for s in TWO_TERMINAL if s.endswith('Source')]


def phys(prog, pt):
    x, y = pt[0] * prog['step'], pt[1] * prog['step']
    for _ in range(prog.get('rot', 0) % 4):
        x, y = -y, x
    return (x + prog['offset'][0], y + prog['offset'][1])


def build(prog, into=None):
    """construct the drawing with the library's own symbol classes (into an existing drawing if given)"""
    from CircuitCalculator.SimpleCircuit import Elements as elm
    d = into if into is not None else elm.Schematic(unit=prog['unit'], show=False)
    placed = []
    # number types: some drawings give their symbol values as Python ints (R=10) or numpy scalars instead of floats
    from .. import netdesc
    nt = prog.get('number_type')
    if nt is None and 'number_type' not in prog:
        k = (len(prog['symbols']) * 5 + sum(len(str(s.get('name', ''))) for s in prog['symbols'])) % 8
        nt = ('int', 'numpy', 'numpy')[k] if k < 3 else None       # no numpy integers: the json module cannot write them (not the library's business)
    netdesc._NUMBER_TYPE[0] = nt
    try:
        return _build(prog, d, elm, placed)
    finally:
        netdesc._NUMBER_TYPE[0] = None


def _same_point(a, b):
    return abs(a[0] - b[0]) < 1e-9 and abs(a[1] - b[1]) < 1e-9


def chain_program(rng):
    """a series loop drawn the usual way: one symbol after the other around a rectangle, each starting where the previous one ended
    (implicit placement), named nodes dropped on junctions on the way, the ground symbol added last on the starting point"""
    a, b = rng.choice([1, 2]), rng.choice([1, 2])
    x0, y0 = rng.choice([0, 1, 2]), rng.choice([0, 1])
    path = [(x0, y0)]
    for (dx, dy), n in (((0, 1), a), ((1, 0), b), ((0, -1), a), ((-1, 0), b)):
        for _ in range(n):
            path.append((path[-1][0] + dx, path[-1][1] + dy))
    nseg = len(path) - 1
    kinds = ['Resistor', 'Resistor', 'Conductance', 'Impedance', 'Line', 'Line', 'Capacitor', 'Inductance']
    w = float(f'{10 ** rng.uniform(1, 3):.3g}')
    symbols = []
    names = iter(['R1', 'R2', 'R3', 'G1', 'Z1', 'C1', 'L1', 'Rx', 'R9', 'R10', 'Ra', 'Rb'])
    src_kind = rng.choice(['dc', 'ac'])
    n_passive = 0
    for k in range(nseg):
        seg = {'p': list(path[k]), 'q': list(path[k + 1])}
        if k == 0:
            if src_kind == 'dc':
                symbols.append({'sym': 'VoltageSource', 'name': 'Vq', 'reverse': rng.random() < 0.5, 'args': {'V': float(f'{10 ** rng.uniform(0, 2):.3g}')}, **seg})
            else:
                symbols.append({'sym': 'ACVoltageSource', 'name': 'Vq', 'reverse': rng.random() < 0.5,
                                'args': {'V': float(f'{10 ** rng.uniform(0, 2):.3g}'), 'w': w, 'phi': rng.choice([0.0, 0.7, -1.2]), 'deg': False, 'sin': False}, **seg})
            continue
        kind = rng.choice(kinds) if not (k == nseg - 1 and n_passive == 0) else 'Resistor'
        if kind in ('Capacitor', 'Inductance') and src_kind == 'dc':
            kind = 'Resistor'
        if kind == 'Line':
            symbols.append({'sym': 'Line', **seg})
        else:
            n_passive += 1
            v = float(f'{10 ** rng.uniform(0, 3):.3g}')
            args = {'Resistor': {'R': v}, 'Conductance': {'G': 1 / v}, 'Impedance': {'Z': [v, -v / 2]}, 'Capacitor': {'C': 1 / (w * v)}, 'Inductance': {'L': v / w}}[kind]
            symbols.append({'sym': kind, 'name': next(names), 'reverse': False, 'args': args, **seg})
        if k < nseg - 1 and rng.random() < 0.4:
            symbols.append({'sym': rng.choice(['Node', 'Node', 'LabelNode']), 'name': f'n{k}', 'at': list(path[k + 1]), 'hold': (k + len(symbols)) % 3 == 1})
    symbols.append({'sym': 'Ground', 'at': list(path[0])})
    return {'unit': rng.choice([3, 7, 2.5]), 'step': rng.choice([1.5, 3.0, 2.0]), 'offset': [0.0, 0.0], 'rot': 0, 'symbols': symbols, 'chain': True}, src_kind, w


def _build(prog, d, elm, placed):
    from ..netdesc import typed
    here = None
    with d:
        for s in prog['symbols']:
            cls = getattr(elm, s['sym'])
            args = {k: (typed(complex(*v)) if isinstance(v, list) else (v if isinstance(v, bool) else typed(v))) for k, v in s.get('args', {}).items()}
            if s['sym'] == 'Switch':
                args['state'] = elm.SwitchState.CLOSED if args.pop('closed') else elm.SwitchState.OPEN
            if s['sym'] == 'Line':
                e = cls()
            elif s['sym'] in ('LabelNode',):
                e = cls(name=s['name'], id_loc=s.get('loc', 'N'))
            elif s['sym'] == 'Node':
                e = cls(name=s['name']) if s.get('name') else cls()       # a named node without a visible label / an unnamed junction dot
            elif s['sym'] == 'Ground':
                e = cls(name=s['name']) if 'name' in s else cls()
            elif s['sym'] == 'LabeledLine':
                e = cls(name=s['name'], reverse=s.get('reverse', False), **args)
            elif s['sym'] == 'Switch':
                e = cls(name=s['name'], **args)
            else:
                e = cls(name=s['name'], reverse=s.get('reverse', False), **args)
            if prog.get('chain') and (here is None or _same_point(phys(prog, s.get('at', s.get('p'))), here)):
                # chained placement, the usual way of drawing: the symbol starts where the previous one ended, two-terminal symbols
                # get a direction and a length, one-terminal symbols are simply added (the very first symbol is anchored with .at())
                if here is None:
                    e = e.at(phys(prog, s.get('at', s.get('p'))))
                if 'at' not in s:
                    (x0, y0), (x1, y1) = phys(prog, s['p']), phys(prog, s['q'])
                    dx, dy = x1 - x0, y1 - y0
                    if abs(dx) > 1e-9 and abs(dy) > 1e-9:
                        e = e.endpoints((x0, y0), (x1, y1))
                    else:
                        e = getattr(e, 'right' if dx > 1e-9 else 'left' if dx < -1e-9 else 'up' if dy > 1e-9 else 'down')(math.hypot(dx, dy))
            elif 'at' in s:
                e = e.at(phys(prog, s['at']))
                if s.get('hold') and not prog.get('chain'):
                    e = e.hold()
            else:
                e = e.endpoints(phys(prog, s['p']), phys(prog, s['q']))
            d += e
            here = phys(prog, s['q']) if 'q' in s else phys(prog, s['at'])
            placed.append((s, e))
    d._vmon_placed = placed
    return d


def geometry_ok(prog, d):
    """did schemdraw put every symbol where the program says (trusted-base confirmation; e.g. it refuses to shrink a symbol below its body length)?"""
    for s, e in d._vmon_placed:
        if 'p' in s:
            for anchor, pt in (('start', s['p']), ('end', s['q'])):
                a = e.absanchors[anchor]
                x, y = phys(prog, pt)
                if abs(a.x - x) > 1e-6 or abs(a.y - y) > 1e-6:
                    return False
    return True


class UF:
    def __init__(self):
        self.p = {}

    def find(self, x):
        self.p.setdefault(x, x)
        while self.p[x] != x:
            self.p[x] = self.p[self.p[x]]
            x = self.p[x]
        return x

    def union(self, a, b):
        self.p[self.find(a)] = self.find(b)


def key(pt):
    return (round(pt[0] * 1000), round(pt[1] * 1000))


def intended_netlist(prog):
    """The netlist the drawing depicts, from the PROGRAM alone (grid coordinates; no schemdraw, no library code).
    -> {'components': [...circdesc components with node class ids...], 'names': {class: label}, 'ground': class or None}"""
    uf = UF()
    for s in prog['symbols']:
        if 'p' in s:
            uf.find(key(s['p'])); uf.find(key(s['q']))
            if s['sym'] == 'Line':
                uf.union(key(s['p']), key(s['q']))
    classes = {}

    def cls_of(pt):
        r = uf.find(key(pt))
        return classes.setdefault(r, f'c{len(classes)}')
    comps, names, ground = [], {}, None
    for s in prog['symbols']:
        if s['sym'] == 'Line':
            continue
        if s['sym'] in ('LabelNode', 'Node'):
            if s.get('name'):
                names[cls_of(s['at'])] = s['name']
            else:
                cls_of(s['at'])                              # an unnamed junction dot names nothing
            continue
        if s['sym'] == 'Ground':
            ground = cls_of(s['at'])
            names[ground] = s.get('name', '0')
            continue
        ctor = TWO_TERMINAL[s['sym']]
        a, b = cls_of(s['p']), cls_of(s['q'])
        rev = bool(s.get('reverse', False))
        ar = dict(s.get('args', {}))
        c = {'ctor': ctor, 'id': s['name'], 'nodes': [a, b], 'args': {}}
        if ctor in ('resistor',) and s['sym'] == 'Switch':
            c['args'] = {'R': 0.0 if ar['closed'] else math.inf}          # a closed switch is an ideal connection
        elif ctor == 'resistor':
            c['args'] = {'R': ar['R']}
        elif ctor == 'conductance':
            c['args'] = {'G': ar['G']}
        elif ctor == 'impedance':
            c['args'] = {'Z': ar['Z']}
        elif ctor == 'capacitor':
            c['args'] = {'C': ar['C']}
        elif ctor == 'inductance':
            c['args'] = {'L': ar['L']}
        elif ctor == 'lamp':
            c['args'] = {'P': ar['P_ref'], 'V_ref': ar['V_ref']}
        elif ctor == 'short_circuit':
            if rev:
                c['nodes'] = [b, a]
        else:   # sources: polarity start -> end unless reversed
            if rev:
                c['nodes'] = [b, a]
            isv = 'voltage' in ctor
            amp = ar['V'] if isv else ar['I']
            if ctor.startswith('dc'):
                c['args'] = {'V' if isv else 'I': amp}
            elif ctor.startswith('complex'):
                c['args'] = {'V' if isv else 'I': amp}
            else:
                phi = ar['phi']
                if ar.get('sin'):
                    phi = (math.radians(phi) if ar.get('deg') else phi) - math.pi / 2      # A sin(wt+phi) = A cos(wt+phi-pi/2)
                elif ar.get('deg'):
                    phi = math.radians(phi)
                c['args'] = {'V' if isv else 'I': amp, 'w': ar['w'], 'phi': phi}
                if ctor.startswith('periodic'):
                    c['args']['wavetype'] = WAVE_OF[[k for k in WAVE_OF if s['sym'].startswith(k)][0]]
        comps.append(c)
    return {'components': comps, 'names': names, 'ground': ground}


# ---- generation: embed a circuit description into the grid ---------------------------------------------------------
def embed(rng, cdesc, grid=6, labels=None, ground=True, sym_of=None):
    """cdesc: circuit description (nodes are abstract labels). Returns a drawing program that depicts it."""
    comps = [c for c in cdesc['components'] if c['ctor'] != 'ground']
    nodes = []
    for c in comps:
        for n in c['nodes']:
            if n not in nodes:
                nodes.append(n)
    pts = [(x, y) for x in range(grid) for y in range(grid)]
    rng.shuffle(pts)
    own = {}
    bridged = {c['nodes'][0] for c in comps if c['nodes'][0] == c['nodes'][1]}     # components with both terminals on one node
    for n in nodes:
        k = rng.choice([1, 1, 1, 2, 2, 3])
        if n in bridged:
            k = max(k, 2)
        own[n] = [pts.pop() for _ in range(k)]
    symbols = []
    for n, ps in own.items():          # wires: a random tree over the node's points (chains and junctions)
        for i in range(1, len(ps)):
            j = rng.randrange(i)
            a, b = (ps[i], ps[j]) if rng.random() < 0.5 else (ps[j], ps[i])
            symbols.append({'sym': 'Line', 'p': list(a), 'q': list(b)})
        if len(ps) >= 3 and rng.random() < 0.6:   # a redundant wire closing a loop of wires
            a, b = rng.sample(ps, 2)
            symbols.append({'sym': 'Line', 'p': list(a), 'q': list(b)})
        if len(ps) >= 2 and rng.random() < 0.3:   # the same wire drawn twice (once in each direction)
            a, b = rng.sample(ps, 2)
            if any(sy['sym'] == 'Line' and {tuple(sy['p']), tuple(sy['q'])} == {tuple(a), tuple(b)} for sy in symbols):
                symbols.append({'sym': 'Line', 'p': list(b), 'q': list(a)})
    for c in comps:
        s = (sym_of or default_symbol)(rng, c)
        a, b = c['nodes']
        if s.pop('_swap', False):
            a, b = b, a
        if a == b:
            pa, pb = rng.sample(own[a], 2)             # drawn between two points of the same node: the wires bridge it
            s['p'], s['q'] = list(pa), list(pb)
        else:
            s['p'] = list(rng.choice(own[a])); s['q'] = list(rng.choice(own[b]))
        symbols.append(s)
    g = [c for c in cdesc['components'] if c['ctor'] == 'ground']
    if g and ground:
        gs = {'sym': 'Ground', 'at': list(rng.choice(own[g[0]['nodes'][0]]))}
        if (len(symbols) + len(own)) % 3 == 0:
            gs['name'] = ['GND', 'M', 'gnd'][len(symbols) % 3]                 # a ground symbol with a name of its own
        symbols.append(gs)
    for n, name in (labels or {}).items():
        if n in own and not (g and ground and g[0]['nodes'][0] == n):
            # the node's name is given by a labelled dot or (one in three) by the plain Node symbol that has no visible label
            symbols.append({'sym': 'Node' if (len(name) + len(symbols)) % 3 == 0 else 'LabelNode', 'name': name, 'at': list(rng.choice(own[n])),
                            'hold': (len(name) + len(symbols)) % 4 == 1})          # placed without moving the drawing cursor
    if len(symbols) % 3 == 0:
        # junction dots without a name on up to two different nodes: they name nothing (and must not be read as one node)
        dots = [n for n in own if not (g and ground and g[0]['nodes'][0] == n) and n not in (labels or {})][:2]
        for n in dots:
            symbols.append({'sym': 'Node', 'name': '', 'at': list(rng.choice(own[n]))})
    elif len(symbols) % 3 == 1:
        # a junction dot without a name on a node that HAS a name (label or ground symbol), before or after it: the name stays
        named = [n for n in own if n in (labels or {}) or (g and ground and g[0]['nodes'][0] == n)][:2]
        for n in named:
            symbols.append({'sym': 'Node', 'name': '', 'at': list(rng.choice(own[n]))})
    rng.shuffle(symbols)
    return {'unit': rng.choice([3, 7, 2.5]), 'step': rng.choice([1.5, 3.0, 2.0]), 'offset': [0.0, 0.0], 'rot': 0, 'symbols': symbols}


def default_symbol(rng, c):
    """symbol (class + args + reverse flag) that depicts component c; '_swap' says the symbol is drawn from node2 to node1"""
    t, a = c['ctor'], c['args']
    rev = rng.random() < 0.5
    if t == 'resistor':
        if a['R'] == math.inf or a['R'] == 0.0:
            return {'sym': 'Switch', 'name': c['id'], 'args': {'closed': a['R'] != math.inf}}
        return {'sym': 'Resistor', 'name': c['id'], 'args': {'R': a['R']}, 'reverse': rev}
    if t == 'conductance':
        return {'sym': 'Conductance', 'name': c['id'], 'args': {'G': a['G']}, 'reverse': rev}
    if t == 'impedance':
        return {'sym': 'Impedance', 'name': c['id'], 'args': {'Z': a['Z']}, 'reverse': rev}
    if t == 'capacitor':
        return {'sym': 'Capacitor', 'name': c['id'], 'args': {'C': a['C']}, 'reverse': rev}
    if t == 'inductance':
        return {'sym': 'Inductance', 'name': c['id'], 'args': {'L': a['L']}, 'reverse': rev}
    if t == 'lamp':
        return {'sym': 'Lamp', 'name': c['id'], 'args': {'P_ref': a['P'], 'V_ref': a['V_ref']}, 'reverse': rev}
    if t == 'short_circuit':
        return {'sym': 'LabeledLine', 'name': c['id'], 'args': {}, 'reverse': rev, '_swap': rev}
    isv = 'voltage' in t
    k = 'V' if isv else 'I'
    s = {'name': c['id'], 'reverse': rev, '_swap': rev}      # a reversed symbol is drawn the other way round -> same circuit
    if t.startswith('dc'):
        s.update(sym='VoltageSource' if isv else 'CurrentSource', args={k: a[k]})
    elif t.startswith('complex'):
        s.update(sym='ComplexVoltageSource' if isv else 'ComplexCurrentSource', args={k: a[k]})
    elif t.startswith('ac'):
        deg = rng.random() < 0.5
        sin = rng.random() < 0.5
        if 'phase_mode' in c:
            sin, deg = c['phase_mode']            # the caller cycles through the four ways of entering a phase
        phi = a['phi'] + (math.pi / 2 if sin else 0.0)
        if sin and a['phi'] == 0.0:
            phi = math.pi / 2                   # V sin(wt + 90 deg): the converted phase is exactly 0
        s.update(sym='ACVoltageSource' if isv else 'ACCurrentSource', args={k: a[k], 'w': a['w'], 'phi': math.degrees(phi) if deg else phi, 'deg': deg, 'sin': sin})
    else:
        deg = rng.random() < 0.5
        wave = {'rect': 'Rect', 'tri': 'Triangle', 'saw': 'Sawtooth'}[a['wavetype']]
        s.update(sym=wave + ('VoltageSource' if isv else 'CurrentSource'), args={k: a[k], 'w': a['w'], 'phi': math.degrees(a['phi']) if deg else a['phi'], 'deg': deg})
    return s


# ---- transforms of a program that must not change what it depicts -----------------------------------------------------
def rotated(prog, k):
    p = copy.deepcopy(prog); p['rot'] = (prog.get('rot', 0) + k) % 4
    return p


def translated(prog, dx, dy):
    p = copy.deepcopy(prog); p['offset'] = [prog['offset'][0] + dx, prog['offset'][1] + dy]
    return p


def rescaled(prog, step, unit):
    p = copy.deepcopy(prog); p['step'] = step; p['unit'] = unit
    return p


def reordered(rng, prog):
    p = copy.deepcopy(prog); rng.shuffle(p['symbols'])
    return p


def wires_split(rng, prog):
    p = copy.deepcopy(prog)
    out = []
    for s in p['symbols']:
        if s['sym'] == 'Line' and rng.random() < 0.7:
            a, b = s['p'], s['q']
            fr = sorted(rng.sample([0.21, 0.37, 0.53, 0.71, 0.83], rng.choice([1, 2])))
            chain = [a] + [[round(a[0] + f * (b[0] - a[0]), 2), round(a[1] + f * (b[1] - a[1]), 2)] for f in fr] + [b]
            for u, v in zip(chain, chain[1:]):
                out.append({'sym': 'Line', 'p': u, 'q': v} if rng.random() < 0.5 else {'sym': 'Line', 'p': v, 'q': u})
        else:
            out.append(s)
    p['symbols'] = out
    return p
