"""Seeded generators of component-level circuit descriptions (see vmon.circdesc)."""
from __future__ import annotations
import math
from . import networks as G

PASSIVE_R = ['resistor', 'conductance', 'impedance', 'admittance', 'lamp', 'resistive_load']
REACTIVE = ['capacitor', 'inductance']
SRC_BASIC = ['dc_voltage_source', 'ac_voltage_source', 'dc_current_source', 'ac_current_source']
WAVES = ['rect', 'tri', 'saw', 'cos', 'sin', 'const']      # 'const': a periodic source whose whole series is the k = 0 term

COMP_IDS = ['R1', 'R2', 'R10', 'R9', 'G1', 'Z1', 'Y1', 'Vs', 'Vq', 'V1', 'V10', 'Is', 'Iq', 'I1', 'I10', 'A', 'B', 'Z', 'a', 'z',
            'L1', 'L2', 'L10', 'La', 'C1', 'C2', 'C10', 'Ca', '1', '2', '10', '9', 'Ω', 'src', 'load', 'U', 'Us', 'q', 'R', 'I', 'V', 'K', 'M', 'H1', 'E']


def make_component(rng, ctor, cid, n1, n2, dec, freqs=None, lossy=0.35, allow_neg=True):
    lo, hi = dec
    v = lambda a=lo, b=hi: G.value(rng, a, b)
    sgn = rng.choice([1, -1]) if allow_neg else 1
    c = {'ctor': ctor, 'id': cid, 'nodes': [n1, n2], 'args': {}}
    a = c['args']
    if ctor == 'resistor':
        a['R'] = v()
    elif ctor == 'conductance':
        a['G'] = 1.0 / v()
    elif ctor == 'impedance':
        a['Z'] = [v(), rng.choice([1, -1]) * v()]
    elif ctor == 'admittance':
        a['Y'] = [1.0 / v(), rng.choice([1, -1]) / v()]
    elif ctor == 'capacitor':
        a['C'] = G.value(rng, -6, -3) if rng.random() < 0.75 else G.value(rng, -12, -8)        # pF..nF values as well
    elif ctor == 'inductance':
        a['L'] = G.value(rng, -4, -1) if rng.random() < 0.75 else G.value(rng, -9, -6)         # nH..uH values as well
    elif ctor in ('lamp', 'resistive_load'):
        a['P'] = G.value(rng, 0, 2); a['V_ref'] = G.value(rng, 0, 2)
    elif ctor == 'short_circuit':
        pass
    elif ctor == 'dc_voltage_source':
        a['V'] = sgn * G.value(rng, -1, 1)
        if rng.random() < lossy:
            a['R'] = v()
    elif ctor == 'dc_current_source':
        a['I'] = sgn * G.value(rng, -3, -1)
        if rng.random() < lossy:
            a['G'] = 1.0 / v()
    elif ctor == 'ac_voltage_source':
        a['V'] = sgn * G.value(rng, -1, 1); a['w'] = rng.choice(freqs) if freqs else G.value(rng, 0, 4)
        a['phi'] = phase(rng)
        if rng.random() < lossy:
            a['R'] = v()
    elif ctor == 'ac_current_source':
        a['I'] = sgn * G.value(rng, -3, -1); a['w'] = rng.choice(freqs) if freqs else G.value(rng, 0, 4)
        a['phi'] = phase(rng)
        if rng.random() < lossy:
            a['G'] = 1.0 / v()
    elif ctor == 'complex_voltage_source':
        a['V'] = G.cvalue(rng, -1, 1)
        if rng.random() < lossy:
            a['Z'] = [v(), rng.choice([1, -1, 0]) * v()]
    elif ctor == 'complex_current_source':
        a['I'] = G.cvalue(rng, -3, -1)
        if rng.random() < lossy:
            a['Y'] = [1.0 / v(), rng.choice([1, -1, 0]) / v()]
    elif ctor == 'periodic_voltage_source':
        a.update(wavetype=rng.choice(WAVES), V=sgn * G.value(rng, -1, 1), w=rng.choice([f for f in freqs if f > 0]) if freqs else G.value(rng, 0, 3), phi=phase(rng))
        if rng.random() < lossy:
            a['R'] = v()
    elif ctor == 'periodic_current_source':
        a.update(wavetype=rng.choice(WAVES), I=sgn * G.value(rng, -3, -1), w=rng.choice([f for f in freqs if f > 0]) if freqs else G.value(rng, 0, 3), phi=phase(rng))
        if rng.random() < lossy:
            a['G'] = 1.0 / v()
    else:
        raise ValueError(ctor)
    return c


def phase(rng):
    r = rng.random()
    if r < 0.12:
        return 0.0
    if r < 0.3:
        return rng.choice([0.0, math.pi / 2, -math.pi / 2, math.pi, -math.pi, 2 * math.pi, math.pi / 4])
    if r < 0.3:
        return rng.uniform(-6 * math.pi, 6 * math.pi)
    return rng.uniform(-math.pi, math.pi)


def random_circuit(rng, max_nodes=6, max_comps=10, passives=PASSIVE_R, n_reactive=(0, 3), sources=SRC_BASIC, n_sources=(1, 3),
                   freqs=None, ground_prob=0.7, lossy=0.35, hostile=True, node_pool=None, id_pool=None):
    n_nodes = rng.randint(2, max_nodes)
    n_c = rng.randint(max(n_nodes - 1, 2), min(max_comps, n_nodes + 4))
    topo = G.random_topology(rng, n_nodes, n_c)
    lo = rng.randint(0, 3)
    if rng.random() < 0.08:
        lo = rng.choice([-6, -5, 6, 7])           # micro-ohm / mega-ohm circuits
    dec = (lo, lo + rng.randint(0, 2))
    nl = G.pick_labels(rng, node_pool or (G.NODE_POOL if hostile else [str(k) for k in range(12)]), n_nodes)
    ids = G.pick_labels(rng, id_pool or (COMP_IDS if hostile else [f'E{k}' for k in range(20)]), n_c + 1)
    ns = min(rng.randint(*n_sources), n_c - 1)
    nr = min(rng.randint(*n_reactive), n_c - ns)
    pos = list(range(n_c))
    rng.shuffle(pos)
    src_pos, re_pos = set(pos[:ns]), set(pos[ns:ns + nr])
    comps = []
    for k, (i, j) in enumerate(topo):
        if k in src_pos:
            ctor = rng.choice(sources)
        elif k in re_pos:
            ctor = rng.choice(REACTIVE)
        else:
            ctor = rng.choice(passives)
        comps.append(make_component(rng, ctor, ids[k], nl[i], nl[j], dec, freqs, lossy))
    if rng.random() < ground_prob:
        comps.insert(rng.randrange(len(comps) + 1), {'ctor': 'ground', 'id': ids[n_c] if rng.random() < 0.5 else 'gnd', 'nodes': [rng.choice(nl)], 'args': {}})
        if len({c['id'] for c in comps}) != len(comps):
            comps = [c for c in comps if c['ctor'] != 'ground']
    k = (len(comps) * 7 + sum(len(str(c['id'])) for c in comps)) % 8
    cd = {'components': comps}
    if k < 3:
        cd['number_type'] = ('int', 'numpy', 'npint')[k]
    return cd
