"""C16 - network simplifications are electrical identities."""
from __future__ import annotations
import cmath
import random
from ..gen import networks as G
from .. import netdesc, purity
from ..ref import tableau
from ..oracles import netsolve
from ..observe import call, raised
from .C06 import ztol

TITLE = "C16 open removal / short contraction / element removal / re-referencing / source stripping change only what they name"
LEVEL = 'exploration'
RULE = ("well-posed random networks (C01 generator) salted with 0-4 opens and 0-5 shorts (node splitting -> chains and stars, parallel "
        "shorts, shorts across passive branches, shorts touching the reference node in either terminal order); every operation of "
        "Network.transformers with random exemption lists; the simplified network is solved with the library's solver and compared "
        "branch by branch / node by node with the exact solution of the ORIGINAL network; passive_network's port impedance is compared "
        "with the exact deactivated port impedance of the original; input networks are fingerprinted before/after. Non-trivial: the "
        "operation removed or renamed something; distinct by (network signature, operation, salt pattern).")
ASSUMPTIONS = [
    "the simplified network is solved by the library's own solver (validated separately by C01); the original by the exact tableau",
    "a short that survives contraction as a short is accepted (electrically harmless); dropped non-short branches must carry exactly zero voltage in the original",
    "node identity after contraction is judged per surviving label: a label that survives must keep its original potential",
]
N_NET = {'quick': 6400, 'thorough': 40000}


def generate(tier, seed, shard, nshards):
    rng = random.Random(f'C16/{seed}/{shard}')
    for _ in range(N_NET[tier] // nshards):
        base = G.random_network(rng, max_nodes=5, max_branches=8)
        d = G.add_salt(rng, base, n_open=rng.randint(0, 4), n_short=rng.randint(0, 5))
        ids = [b['id'] for b in d['branches']]
        keep = rng.sample(ids, rng.randint(0, min(3, len(ids)))) if rng.random() < 0.6 else []
        yield {'net': d, 'keep': keep, 'remove': rng.choice(ids), 'new_ground': rng.random(), 'port': rng.random()}


def elements_equal(e1, e2):
    return e1 == e2 or repr(e1) == repr(e2)


def solve_simplified(ctx, prefix, op, z, refd_orig, desc, survivors_expect_solution=True):
    """solve z with the library and compare surviving nodes/branches with the exact original solution"""
    from CircuitCalculator.Network.NodalAnalysis.bias_point_analysis import nodal_analysis_bias_point_solver
    sol = call(nodal_analysis_bias_point_solver, z)
    if raised(sol):
        ctx.violation(f'{prefix}/{op}/simplified-network-unsolvable/{sol.key}', f'{op}: the simplified network fails to solve: {sol.text}', {})
        return
    rep, tol = refd_orig['rep'], refd_orig['tol'] * 16
    s_phi, s_i = refd_orig['s_phi'], refd_orig['s_i']
    zn = set(z.node_labels)
    for n in zn:
        if n not in rep['phi']:
            ctx.violation(f'{prefix}/{op}/invented-node', f'{op}: node {n!r} does not exist in the original', {})
            return
        v = call(sol.get_potential, n)
        if raised(v) or abs(complex(v) - rep['phi'][n]) > tol * s_phi:
            ctx.violation(f'{prefix}/{op}/node-potential-changed', f'{op}: potential({n!r}) = {v!r}, original {rep["phi"][n]!r}', {})
            return
    feats = {b['id']: netsolve.feature_of(b) for b in desc['branches']}
    for b in z.branches:
        v, i = call(sol.get_voltage, b.id), call(sol.get_current, b.id)
        if raised(v) or raised(i):
            bad = v if raised(v) else i
            ctx.violation(f'{prefix}/{op}/query-raised/{bad.key}', bad.text, {})
            return
        if abs(complex(v) - rep['V'][b.id]) > tol * s_phi:
            ctx.violation(f'{prefix}/{op}/branch-voltage-changed/{feats[b.id]}', f'{op}: V({b.id!r}) = {complex(v)!r}, original {rep["V"][b.id]!r} (orientation or node merge error)', {})
            return
        if abs(complex(i) - rep['I'][b.id]) > tol * s_i:
            ctx.violation(f'{prefix}/{op}/branch-current-changed/{feats[b.id]}', f'{op}: I({b.id!r}) = {complex(i)!r}, original {rep["I"][b.id]!r}', {})
            return
    ctx.count('simplified_solutions_compared')


def judge(case, ctx, prefix='C16'):
    from CircuitCalculator.Network import transformers as trf
    from CircuitCalculator.Network import elements as elm
    from CircuitCalculator.Network.NodalAnalysis import node_analysis as na
    desc = case['net']
    refd = netsolve.reference(desc)
    if refd is None or refd['kappa'] > netsolve.KAPPA_MAX:
        ctx.count('set_aside_ill_posed_or_conditioned')
        return
    net = call(netdesc.to_lib, desc)
    if raised(net):
        ctx.violation(f'{prefix}/valid-network-rejected/{net.key}', net.text, {})
        return
    by_id = {b.id: b for b in net.branches}
    keep = [by_id[k].element for k in case['keep']]
    if case['keep'] and case['port'] < 0.5:
        # the exemption list written independently: elements EQUAL to the network's, but not the same objects (a rebuilt description)
        twin = {b.id: b for b in netdesc.to_lib(desc).branches}
        keep = [twin[k].element for k in case['keep']]
        ctx.count('keep_lists_of_equal_but_distinct_elements')
    keep_fp = purity.fp(keep)
    before = purity.fp(net)
    n_open = sum(1 for b in desc['branches'] if b['ctor'] == 'open_circuit')
    n_short = sum(1 for b in desc['branches'] if b['ctor'] == 'short_circuit')
    sig = netdesc.signature(desc)
    ns = netdesc.nodes(desc)
    ctx.count('networks_judged')
    ctx.sample(case)

    def pure(op):
        if purity.fp(net) != before:
            ctx.violation(f'{prefix}/{op}/input-network-mutated', f'{op} modified the network object it was given', {})
        if purity.fp(keep) != keep_fp:
            ctx.violation(f'{prefix}/{op}/exemption-list-mutated', f'{op} modified the keep list it was given', {})

    def structural(op, z, removed_allowed, must_survive):
        """ids/elements of survivors are untouched; only allowed ids disappear"""
        zid = [b.id for b in z.branches]
        if len(set(zid)) != len(zid):
            ctx.violation(f'{prefix}/{op}/duplicated-branch', f'{zid!r}', {})
            return False
        for b in z.branches:
            if b.id not in by_id:
                ctx.violation(f'{prefix}/{op}/invented-branch', f'{b.id!r}', {})
                return False
        for i in by_id:
            if i not in zid and i not in removed_allowed:
                ctx.violation(f'{prefix}/{op}/removed-unnamed-branch', f'{op} removed {i!r} ({by_id[i].element!r})', {})
                return False
        for i in must_survive:
            if i not in zid:
                ctx.violation(f'{prefix}/{op}/removed-exempt-or-required-branch', f'{op} removed {i!r}', {})
                return False
        return True

    def must_survive(op, z, contracted_ids):
        """an exempt element may only vanish if contracting the given branches made it a self-loop"""
        parent = {}

        def find(x):
            parent.setdefault(x, x)
            while parent[x] != x:
                parent[x] = parent[parent[x]]
                x = parent[x]
            return x
        for b in desc['branches']:
            if b['id'] in contracted_ids:
                parent[find(b['n1'])] = find(b['n2'])
        zid = {b.id for b in z.branches}
        for k in case['keep']:
            o = by_id[k]
            if k not in zid and find(o.node1) != find(o.node2):
                ctx.violation(f'{prefix}/{op}/exempt-element-removed', f'{op}(keep={case["keep"]!r}) removed the exempt element {k!r} ({o.element!r})', {})
                return
        ctx.count('exemptions_checked')

    # ---- remove_open_circuit_elements ------------------------------------------------------------------
    op = 'remove_open_circuit_elements'
    z = call(trf.remove_open_circuit_elements, net)
    pure(op)
    opens = {b['id'] for b in desc['branches'] if refd['kinds'][b['id']] == 'open'}
    if raised(z):
        ctx.violation(f'{prefix}/{op}/raised/{z.key}', z.text, {})
    else:
        ctx.evaluated(sig + op + str(n_open), n_open > 0)
        if structural(op, z, opens, set(by_id) - opens):
            if any(b.id in opens for b in z.branches):
                ctx.violation(f'{prefix}/{op}/open-survived', 'an open-circuit branch was not removed', {})
            for b in z.branches:
                o = by_id[b.id]
                if (b.node1, b.node2) != (o.node1, o.node2) or not elements_equal(b.element, o.element):
                    ctx.violation(f'{prefix}/{op}/survivor-altered', f'{o!r} -> {b!r}', {})
                    break
            if z.node_zero_label != net.node_zero_label:
                ctx.violation(f'{prefix}/{op}/reference-node-changed', f'{net.node_zero_label!r} -> {z.node_zero_label!r}', {})
            solve_simplified(ctx, prefix, op, z, refd, desc)
    # ---- remove_short_circuit_elements(keep) ----------------------------------------------------------------
    op = 'remove_short_circuit_elements'
    z = call(trf.remove_short_circuit_elements, net, keep)
    pure(op)
    shorts = {b['id'] for b in desc['branches'] if refd['kinds'][b['id']] == 'short' and b['ctor'] != 'voltage_source'}
    zero_v = {b['id'] for b in desc['branches'] if refd['rep']['V'][b['id']] == 0}
    if raised(z):
        ctx.violation(f'{prefix}/{op}/raised/{z.key}', f'{z.text} (shorts={sorted(shorts)!r}, keep={case["keep"]!r})', {})
    else:
        ctx.evaluated(sig + op + str(n_short) + str(len(case['keep'])), n_short > 0)
        ctx.count('short_contractions')
        # removable: non-exempt shorts, and branches that the contraction turned into self-loops (must carry zero voltage)
        allowed = (shorts - set(case['keep'])) | zero_v
        if structural(op, z, allowed, set()):
            for b in z.branches:
                if not elements_equal(b.element, by_id[b.id].element):
                    ctx.violation(f'{prefix}/{op}/survivor-element-altered', f'{by_id[b.id]!r} -> {b!r}', {})
                    break
            must_survive(op, z, shorts - set(case['keep']))
            if z.node_zero_label != net.node_zero_label:
                ctx.violation(f'{prefix}/{op}/reference-node-changed', f'{net.node_zero_label!r} -> {z.node_zero_label!r}', {})
            elif z.branches and z.node_zero_label not in z.node_labels:
                ctx.violation(f'{prefix}/{op}/reference-node-absorbed', f'reference node {z.node_zero_label!r} no longer touches any branch', {})
            else:
                solve_simplified(ctx, prefix, op, z, refd, desc)
    # ---- remove_element -------------------------------------------------------------------------------------
    op = 'remove_element'
    rid = case['remove']
    z = call(trf.remove_element, net, rid)
    pure(op)
    if raised(z):
        rest_nodes = {n for b in desc['branches'] if b['id'] != rid for n in (b['n1'], b['n2'])}
        if desc['ref'] in rest_nodes or len(desc['branches']) == 1:
            ctx.violation(f'{prefix}/{op}/raised/{z.key}', z.text, {})
    else:
        ctx.evaluated(sig + op, True)
        if [b.id for b in z.branches] != [i for i in by_id if i != rid] or any(b is not by_id[b.id] and b != by_id[b.id] for b in z.branches):
            ctx.violation(f'{prefix}/{op}/wrong-branch-set', f'removing {rid!r} gave {[b.id for b in z.branches]!r}', {})
        else:
            d2 = {'ref': desc['ref'], 'branches': [b for b in desc['branches'] if b['id'] != rid]}
            r2 = netsolve.reference(d2)
            if r2 is not None and r2['kappa'] < netsolve.KAPPA_MAX:
                solve_simplified(ctx, prefix, op, z, r2, d2)
        ctx.count('element_removals')
    # ---- switch_ground_node -----------------------------------------------------------------------------------
    op = 'switch_ground_node'
    newg = ns[int(case['new_ground'] * len(ns)) % len(ns)]
    z = call(trf.switch_ground_node, net, newg)
    pure(op)
    if raised(z):
        ctx.violation(f'{prefix}/{op}/raised/{z.key}', z.text, {})
    else:
        ctx.evaluated(sig + op + str(newg == desc['ref']), True)
        if z.node_zero_label != newg or len(z.branches) != len(net.branches) or any(a != b for a, b in zip(z.branches, net.branches)):
            ctx.violation(f'{prefix}/{op}/changed-more-than-the-reference', '', {})
        else:
            d2 = {'ref': newg, 'branches': desc['branches']}
            r2 = netsolve.reference(d2)
            if r2 is not None and r2['kappa'] < netsolve.KAPPA_MAX:
                shift = refd['rep']['phi'][newg]
                for n in ns:
                    if abs((refd['rep']['phi'][n] - shift) - r2['rep']['phi'][n]) > 1e-9 * refd['s_phi']:
                        raise AssertionError('reference model inconsistent under re-referencing')
                solve_simplified(ctx, prefix, op, z, r2, d2)
        ctx.count('reference_switches')
    # ---- source stripping ------------------------------------------------------------------------------------
    for op, fn in (('remove_ideal_current_sources', trf.remove_ideal_current_sources), ('remove_ideal_voltage_sources', trf.remove_ideal_voltage_sources),
                   ('passive_network', trf.passive_network)):
        z = call(fn, net, keep)
        pure(op)
        if raised(z):
            # contraction can legitimately detach the reference node only if the result is empty; anything else is reported
            ctx.violation(f'{prefix}/{op}/raised/{z.key}', f'{z.text} (keep={case["keep"]!r})', {})
            continue
        ctx.evaluated(sig + op + str(len(case['keep'])), True)
        ctx.count('source_strippings')
        zid = {b.id for b in z.branches}
        ideal_v = {b['id'] for b in desc['branches'] if refd['kinds'][b['id']] in ('V', 'short')}
        opens_or_i = {b['id'] for b in desc['branches'] if refd['kinds'][b['id']] in ('I', 'open')}
        must_survive(op, z, set() if op == 'remove_ideal_current_sources' else ideal_v - set(case['keep']))
        for k in case['keep']:
            if k in zid and not elements_equal(next(b for b in z.branches if b.id == k).element, by_id[k].element):
                ctx.violation(f'{prefix}/{op}/exempt-element-altered', f'{k!r}', {})
        for b in z.branches:
            if b.id in case['keep']:
                continue
            if elm.is_active(b.element) and (op == 'passive_network'):
                ctx.violation(f'{prefix}/{op}/active-element-survived', f'{b!r}', {})
            o = by_id.get(b.id)
            if o is None:
                ctx.violation(f'{prefix}/{op}/invented-branch', f'{b.id!r}', {})
            elif not elm.is_active(o.element) and not elements_equal(b.element, o.element):
                ctx.violation(f'{prefix}/{op}/passive-element-altered', f'{o!r} -> {b!r}', {})
            elif elm.is_active(o.element) and not elm.is_active(b.element):
                # a source with an inner impedance / admittance that was switched off survives as exactly that immittance
                ctx.count('deactivated_sources_compared')
                zo, zb = complex(o.element.Z), complex(b.element.Z)
                same_z = (zo == zb) or (cmath.isfinite(zo) and cmath.isfinite(zb) and abs(zo - zb) <= 1e-12 * max(abs(zo), abs(zb)))
                if not same_z and not (cmath.isfinite(zo) or cmath.isfinite(zb)):
                    same_z = True                                    # both open
                if not same_z:
                    ctx.violation(f'{prefix}/{op}/deactivated-source-immittance-altered', f'{o!r} -> {b!r}: inner impedance {zo!r} became {zb!r}', {})
                # ... between the same terminals in the same order (nodes can only have been renamed by a contraction, never swapped)
                if (b.node1, b.node2) == (o.node2, o.node1) and o.node1 != o.node2:
                    ctx.violation(f'{prefix}/{op}/deactivated-source-reversed', f'{o!r} -> {b!r}: the terminals of the switched-off source were exchanged', {})
        if op == 'passive_network' and not case['keep'] and z.branches:
            # port behaviour of the stripped network = deactivated original
            zn = z.node_labels
            if len(zn) >= 2:
                a, b = zn[int(case['port'] * len(zn)) % len(zn)], z.node_zero_label
                if a != b:
                    st, zref = tableau.port_impedance(refd['ref_net'], a, b)
                    if st == 'ok':
                        kap, tolz = ztol(refd['ref_net'], zref, a, b)
                        if kap < netsolve.KAPPA_MAX:
                            got = call(na.open_circuit_impedance, z, a, b)
                            ctx.count('passive_ports_compared')
                            if raised(got):
                                ctx.violation(f'{prefix}/{op}/port-impedance-raised/{got.key}', got.text, {})
                            elif abs(complex(got) - zref) > 4 * tolz:
                                ctx.violation(f'{prefix}/{op}/port-impedance-changed', f'Z({a!r},{b!r}) of the passive network = {complex(got)!r}, deactivated original {zref!r}', {})


def guards(m, tier):
    c = m['counters']
    r = []
    q = tier == 'quick'
    for k, need in (('networks_judged', 1500), ('simplified_solutions_compared', 5000), ('short_contractions', 1500), ('passive_ports_compared', 250)):
        need = need if q else need * 12
        if c.get(k, 0) < need:
            r.append(f'{k} = {c.get(k, 0)} (<{need})')
    return r
