"""C02 - DC/AC phasor analysis of component circuits is exact at every frequency."""
from __future__ import annotations
import math, random
from ..gen import circuits as GC
from .. import circdesc
from ..oracles import netsolve
from ..observe import call, raised

TITLE = "C02 DCSolution / ComplexSolution = exact phasor solution of the component-level reference"
LEVEL = 'exploration'
RULE = ("seeded random RLC(+G/Z/Y/lamp/load) circuits (2-6 nodes, <=10 components, hostile labels, with/without ground) with 1-3 DC/"
        "sinusoidal sources (ideal and lossy, amplitudes of either sign, multi-turn phases); each analysed at w in {0, each source "
        "frequency, source frequency +-0.9 and +-1.1 w_resolution, random decades} in peak and RMS mode plus DCSolution. "
        "Non-trivial: well-posed at w (exact rank), >=1 source active at w or the explicit off-frequency stratum, non-zero reference "
        "solution; distinct by (circuit signature, w-class, mode).")
ASSUMPTIONS = [
    "component table of DESIGN 4.1 (jwL, 1/(jwC), V_ref^2/P, A e^{j phi}, short/open off-frequency) solved exactly over Q(i)",
    "off-frequency replacement by short/open is judged for ideal sources only (lossy sources are analysed at their own frequency or far away)",
    "lossy (linear) sources follow the library's documented generator convention (C01)",
    "tolerance (1e-9 + 256 kappa 2^-53)*scale",
]
N_CIRC = {'quick': 6400, 'thorough': 60000}
W_RES = 1e-3


def w_classes(rng, cdesc):
    ws = [('zero', 0.0)]
    fs = sorted({f for f in (circdesc.source_frequency(c) for c in cdesc['components']) if f is not None})
    for f in fs:
        ws.append(('at-source', f))
        ws.append(('inside+', f + 0.9 * W_RES))
        ws.append(('outside+', f + 1.1 * W_RES))
        if f - 1.1 * W_RES >= 0:
            ws.append(('inside-', f - 0.9 * W_RES))
            ws.append(('outside-', f - 1.1 * W_RES))
    ws.append(('random', 10.0 ** rng.uniform(-1, 5)))
    return ws


def generate(tier, seed, shard, nshards):
    rng = random.Random(f'C02/{seed}/{shard}')
    for _ in range(N_CIRC[tier] // nshards):
        shared = [GC.G.value(rng, 0, 4) for _ in range(2)]
        cd = GC.random_circuit(rng, freqs=shared + [0.0] if rng.random() < 0.6 else None)
        wl = [x for x in w_classes(rng, cd) if not has_lossy_off_frequency(cd, x[1])]
        rng.shuffle(wl)
        for cls, w in wl[:3]:
            yield {'circuit': cd, 'w': w, 'wclass': cls, 'mode': rng.choice(['peak', 'rms'])}
        if not has_lossy_off_frequency(cd, 0.0):
            yield {'circuit': cd, 'w': 0.0, 'wclass': 'dc', 'mode': 'dc'}


def has_lossy_off_frequency(cdesc, w):
    for c in cdesc['components']:
        f = circdesc.source_frequency(c)
        if f is None:
            continue
        a = c['args']
        lossy = (a.get('R', 0) != 0) or (a.get('G', 0) != 0)
        if lossy and abs(w - f) > W_RES * 0.95:
            return True
    return False


def judge(case, ctx, prefix='C02'):
    cd, w, mode = case['circuit'], case['w'], case['mode']
    if has_lossy_off_frequency(cd, w):
        ctx.count('set_aside_lossy_source_off_frequency')
        return
    ref_net = circdesc.ref_network(cd, w, W_RES)
    feats = {c['id']: c['ctor'] for c in cd['components']}
    refd = netsolve.reference_from_ref(ref_net, feats)
    if refd is None:
        ctx.count('set_aside_ill_posed')
        return
    if refd['kappa'] > netsolve.KAPPA_MAX:
        ctx.count('set_aside_ill_conditioned')
        return
    n_active = sum(1 for b in ref_net['branches'] if b['kind'] in ('V', 'I', 'LV', 'LI'))
    n_reactive = sum(1 for c in cd['components'] if c['ctor'] in ('capacitor', 'inductance'))
    nontrivial = not refd['trivial'] and n_active >= 1
    ctx.evaluated(circdesc.signature(cd, (case['wclass'], mode)), nontrivial)
    ctx.count('judged'); ctx.count(f'wclass_{case["wclass"]}'); ctx.count(f'mode_{mode}')
    if n_reactive:
        ctx.count('with_reactive')
    ctx.sample(case)
    from CircuitCalculator.Circuit.solution import ComplexSolution, DCSolution
    circ = call(circdesc.to_lib, cd)
    if raised(circ):
        ctx.violation(f'{prefix}/valid-circuit-rejected/{circ.key}', f'constructing the circuit raised {circ.text}', {})
        return
    if mode == 'dc':
        sol = call(DCSolution, circ)
    else:
        sol = call(ComplexSolution, circuit=circ, w=w, peak_values=(mode == 'peak'))
    if raised(sol):
        ctx.violation(f'{prefix}/solution-raised/{sol.key}', f'{mode} analysis of a well-posed circuit at w={w!r} raised {sol.text}', {})
        return
    getters = {'phi': sol.get_potential, 'V': sol.get_voltage, 'I': sol.get_current, 'P': sol.get_power}
    if mode == 'dc':
        netsolve.compare(refd, getters, ctx, prefix + '/dc', want_real=True)
    elif mode == 'peak':
        netsolve.compare(refd, getters, ctx, prefix + '/peak', power_factor=0.5)
        netsolve.certificate(refd, getters, ctx, prefix + '/peak')
    else:
        netsolve.compare(refd, getters, ctx, prefix + '/rms', scale=1 / math.sqrt(2))
        netsolve.certificate(refd, getters, ctx, prefix + '/rms', scale=1 / math.sqrt(2))
    ctx.maxstat('kappa_max_judged', refd['kappa'])


def guards(m, tier):
    c = m['counters']
    r = []
    need = 2500 if tier == 'quick' else 40000
    if c.get('judged', 0) < need:
        r.append(f'only {c.get("judged", 0)} (circuit, w) pairs judged (<{need})')
    for k in ('wclass_at-source', 'wclass_zero', 'wclass_inside+', 'wclass_outside+', 'mode_dc', 'mode_peak', 'mode_rms', 'with_reactive'):
        if c.get(k, 0) < 20:
            r.append(f'stratum {k} judged only {c.get(k, 0)} times')
    return r
