"""C06 - port behaviour: driving-point impedance and Thevenin/Norton equivalents."""
from __future__ import annotations
import itertools, math, random, copy
import numpy as np
from ..gen import networks as G
from ..gen import circuits as GC
from .. import netdesc, circdesc
from ..ref import tableau, floatmna
from ..oracles import netsolve
from ..observe import call, raised

TITLE = "C06 port impedance / Thevenin-Norton equivalents = unit-current injection into the deactivated network"
LEVEL = 'exploration'
RULE = ("well-posed random networks (C01 generator, incl. ideal voltage sources away from the port and extra nodes hanging on open "
        "branches whose labels sort before/after the port nodes) x ordered node pairs x elements; exact reference = 1 A injected into "
        "the deactivated tableau; relations on the library's own outputs (symmetry, re-referencing, zero cases, Isc = Voc/Zth, load "
        "test through the library's solver with 3 fresh load impedances, Thevenin/Norton objects); component circuits with L/C swept "
        "over frequency through Circuit.impedance. Non-trivial: finite non-zero reference port impedance; distinct by (network "
        "signature, port class).")
ASSUMPTIONS = [
    "ports whose deactivated impedance is infinite (port nodes not conductively connected) are outside the domain and skipped",
    "tolerance (1e-9 + 256 kappa 2^-53) * max(|Z_ref|, largest finite element impedance); kappa of the deactivated float MNA; kappa > 1e8 set aside",
]
N_NET = {'quick': 2250, 'thorough': 30000}
N_CIRC = {'quick': 450, 'thorough': 6000}


def salted(rng, d):
    """add nodes reachable through open branches only, with labels before/after the existing ones"""
    d = copy.deepcopy(d)
    ns = netdesc.nodes(d)
    used = {b['id'] for b in d['branches']}
    extra_nodes = [n for n in [' ', '!', '-', '#', '~', 'zz', 'zzz', '}'] if n not in ns]
    extra_ids = [i for i in ['O1', 'O2', 'O3', 'Oa', '!o', '~o'] if i not in used]
    for _ in range(rng.randint(1, 2)):
        n = extra_nodes.pop(rng.randrange(len(extra_nodes)))
        kind = rng.choice(['open', 'isrc'])
        b = {'id': extra_ids.pop(), 'n1': rng.choice(ns), 'n2': n}
        if rng.random() < 0.5:
            b['n1'], b['n2'] = b['n2'], b['n1']
        if kind == 'open':
            b['ctor'] = 'open_circuit'
        else:
            b.update(ctor='current_source', I=0.001)
            # an ideal current source into a dangling node is ill-posed; give the node a conductive path of its own
            n2 = extra_nodes.pop(rng.randrange(len(extra_nodes)))
            d['branches'].append({'id': extra_ids.pop(), 'n1': n, 'n2': n2, 'ctor': 'resistor', 'R': 50.0})
            d['branches'].append({'id': extra_ids.pop(), 'n1': n2, 'n2': n, 'ctor': 'resistor', 'R': 70.0})
        d['branches'].insert(rng.randrange(len(d['branches']) + 1), b)
    return d


DIRECTED_NETS = [
    # group of nodes {b, c} attached to the port's part through an open branch only
    {'ref': '0', 'branches': [{'id': 'R1', 'n1': 'a', 'n2': '0', 'ctor': 'resistor', 'R': 10.0},
                              {'id': 'O1', 'n1': 'a', 'n2': 'b', 'ctor': 'open_circuit'},
                              {'id': 'R2', 'n1': 'b', 'n2': 'c', 'ctor': 'resistor', 'R': 5.0},
                              {'id': 'R3', 'n1': 'c', 'n2': 'b', 'ctor': 'resistor', 'R': 7.0}]},
    # single node hanging on an open branch, sorting before / after the port node
    {'ref': '0', 'branches': [{'id': 'R1', 'n1': 'm', 'n2': '0', 'ctor': 'resistor', 'R': 10.0},
                              {'id': 'R2', 'n1': 'm', 'n2': '0', 'ctor': 'resistor', 'R': 30.0},
                              {'id': 'O1', 'n1': 'a', 'n2': 'm', 'ctor': 'open_circuit'},
                              {'id': 'O2', 'n1': 'z', 'n2': '0', 'ctor': 'open_circuit'}]},
    # ideal voltage source away from the port: 30 || 10 = 7.5 Ohm
    {'ref': '0', 'branches': [{'id': 'Vs', 'n1': 'x', 'n2': '0', 'ctor': 'voltage_source', 'V': 1.0},
                              {'id': 'R1', 'n1': 'x', 'n2': 'p', 'ctor': 'resistor', 'R': 30.0},
                              {'id': 'R2', 'n1': 'p', 'n2': '0', 'ctor': 'resistor', 'R': 10.0}]},
]
DIRECTED_CIRCS = [
    {'components': [{'ctor': 'ground', 'id': 'g', 'nodes': ['0'], 'args': {}},
                    {'ctor': 'resistor', 'id': 'R1', 'nodes': ['a', '0'], 'args': {'R': 10.0}},
                    {'ctor': 'capacitor', 'id': 'C1', 'nodes': ['a', 'b'], 'args': {'C': 1e-6}},
                    {'ctor': 'resistor', 'id': 'R2', 'nodes': ['b', 'c'], 'args': {'R': 5.0}},
                    {'ctor': 'resistor', 'id': 'R3', 'nodes': ['c', 'b'], 'args': {'R': 7.0}}]},
    {'components': [{'ctor': 'ground', 'id': 'g', 'nodes': ['0'], 'args': {}},
                    {'ctor': 'resistor', 'id': 'R1', 'nodes': ['m', '0'], 'args': {'R': 10.0}},
                    {'ctor': 'capacitor', 'id': 'C1', 'nodes': ['m', 'a'], 'args': {'C': 1e-6}},
                    {'ctor': 'capacitor', 'id': 'C2', 'nodes': ['z', 'm'], 'args': {'C': 1e-6}},
                    {'ctor': 'inductance', 'id': 'L1', 'nodes': ['m', '0'], 'args': {'L': 1e-3}}]},
]


def generate(tier, seed, shard, nshards):
    rng = random.Random(f'C06/{seed}/{shard}')
    if shard == 0:
        for d in DIRECTED_NETS:
            yield {'kind': 'net', 'stratum': 'directed', 'net': d, 'all_pairs': True}
        for cd in DIRECTED_CIRCS:
            for port in itertools.permutations(circdesc.nodes(cd), 2):
                yield {'kind': 'circ', 'circuit': cd, 'ws': [0.0, 100.0, 1e4], 'port': list(port)}
    for k in range(N_NET[tier] // nshards):
        d = G.random_network(rng, max_nodes=6, max_branches=10)
        stratum = 'random'
        if k % 3 == 1:
            d = salted(rng, d); stratum = 'salted'
        if k % 8 == 6:
            # bridged elements (both terminals on one node): they must not change any port impedance
            G.add_self_loops(random.Random(f'{seed}/{shard}/{k}/loop'), d); stratum += '+self-loop'
        yield {'kind': 'net', 'stratum': stratum, 'net': d}
    for k in range(N_CIRC[tier] // nshards):
        cd = GC.random_circuit(rng, max_nodes=5, max_comps=8, n_reactive=(1, 3), sources=['dc_voltage_source', 'ac_voltage_source', 'dc_current_source'],
                               n_sources=(0, 2), lossy=0.3)
        ws = [0.0] + [10 ** rng.uniform(0, 5) for _ in range(5)]
        if k % 5 == 4:
            # very slow sweeps (periods of hours) over very large L and C: a frequency within the source-matching resolution of zero is
            # still a frequency - jwL and 1/(jwC) are what they are
            for c in cd['components']:
                for key in ('L', 'C'):
                    if key in c['args'] and c['ctor'] in ('inductance', 'capacitor'):
                        c['args'][key] = c['args'][key] * 1e6
            ws = [0.0, 2e-4, 5e-4, 1e-3, 3e-3] + ws[1:3]
        yield {'kind': 'circ', 'circuit': cd, 'ws': ws}


def ztol(ref_net, zref, a=None, b=None):
    """tolerance for a port impedance: condition number of the deactivated float MNA of the part attached to the port"""
    dn = tableau.port_part(ref_net, a, b) if a is not None else None
    if dn is None:
        dn = {'ref': ref_net['ref'], 'branches': []}
        for x in ref_net['branches']:
            kind, _ = tableau.normalise(x)
            dn['branches'].append({**x, 'kind': 'short'} if kind == 'V' else ({**x, 'kind': 'open'} if kind == 'I' else x))
    kappa, sc = floatmna.kappa_and_scales(dn)
    return kappa, floatmna.tolerance(kappa) * max(abs(zref), sc['zmax'], 1e-300)


def judge_port(ctx, prefix, net, ref_net, a, b, lib_fn, label='open_circuit_impedance'):
    """returns (status, zref, zlib)"""
    st, zref = tableau.port_impedance(ref_net, a, b)
    if st == 'detached':
        # no conducting path between the two nodes: the answer is 'infinite', whatever the reference node
        z = call(lib_fn, a, b)
        ctx.count('detached_ports_judged')
        if raised(z):
            ctx.violation(f'{prefix}/{label}/detached-port/raised/{z.key}', f'{label}({a!r},{b!r}) raised {z.text}; the nodes are not conductively connected, the impedance is infinite', {})
        elif not np.isinf(abs(complex(z))):
            ctx.violation(f'{prefix}/{label}/detached-port/finite', f'{label}({a!r},{b!r}) = {z!r}; the nodes are not conductively connected, the impedance is infinite', {})
        return st, None, None
    if st != 'ok':
        ctx.count('set_aside_infinite_port')
        return st, None, None
    kappa, tol = ztol(ref_net, zref, a, b)
    if kappa > netsolve.KAPPA_MAX:
        ctx.count('set_aside_ill_conditioned_port')
        return 'illcond', None, None
    z = call(lib_fn, a, b)
    ctx.count('ports_judged')
    across_vs = any(tableau.normalise(x)[0] in ('V', 'short') and {x['n1'], x['n2']} == {a, b} for x in ref_net['branches'])
    pclass = 'same-node' if a == b else ('across-ideal-vsource' if across_vs else ('to-reference' if ref_net['ref'] in (a, b) else 'floating-port'))
    ctx.count(f'port_{pclass}')
    if raised(z):
        isl = 'with-floating-island' if _has_island(ref_net, a) else 'no-island'
        ctx.violation(f'{prefix}/{label}/raised/{z.key}/{isl}', f'{label}({a!r},{b!r}) raised {z.text}; exact port impedance {zref!r}', {'a': a, 'b': b})
        return 'raised', zref, None
    err = abs(complex(z) - zref)
    ctx.maxstat('max_impedance_error_over_tol', err / tol if tol else 0)
    if not err <= tol:
        has_vs = any(tableau.normalise(x)[0] in ('V', 'short') for x in ref_net['branches'])
        ctx.violation(f'{prefix}/{label}/mismatch/{pclass}/{"with-ideal-vsource" if has_vs else "no-ideal-vsource"}',
                      f'{label}({a!r},{b!r}) = {complex(z)!r}, exact {zref!r}', {'a': a, 'b': b, 'tol': tol})
        return 'mismatch', zref, complex(z)
    if (a == b or across_vs) and complex(z) != 0:
        ctx.violation(f'{prefix}/{label}/not-exactly-zero', f'{label}({a!r},{b!r}) = {z!r} should be exactly 0', {})
    return 'ok', zref, complex(z)


def judge(case, ctx, prefix='C06'):
    if case['kind'] == 'circ':
        return judge_circuit(case, ctx, prefix)
    from CircuitCalculator.Network.NodalAnalysis import node_analysis as na
    from CircuitCalculator.Network.NodalAnalysis import bias_point_analysis as bpa
    from CircuitCalculator.Network import transformers as trf
    desc = case['net']
    refd = netsolve.reference(desc)
    if refd is not None and refd['kappa'] > netsolve.KAPPA_MAX:
        refd = None
    if refd is None:
        ctx.count('networks_not_solvable_impedance_only')
    ref_net = netdesc.to_ref(desc)
    net = call(netdesc.to_lib, desc)
    if raised(net):
        ctx.violation(f'{prefix}/valid-network-rejected/{net.key}', net.text, {})
        return
    ns = netdesc.nodes(desc)
    pairs = list(itertools.permutations(ns, 2))
    ctx.rng.shuffle(pairs)
    pairs = (pairs if case.get('all_pairs') else pairs[:5]) + [(ns[0], ns[0])]
    # ports across ideal voltage sources explicitly
    for b in desc['branches']:
        if b['ctor'] == 'voltage_source' and netdesc.is_zero(b.get('Z', 0)):
            pairs.append((b['n1'], b['n2']))
            pairs.append((b['n2'], b['n1']))
            break
    judged_any = False
    for a, b in pairs:
        st, zref, z = judge_port(ctx, prefix, net, ref_net, a, b, lambda x, y: na.open_circuit_impedance(net, x, y))
        if st not in ('ok', 'mismatch', 'raised'):
            continue
        judged_any = True
        nontrivial = zref is not None and abs(zref) > 0
        ctx.evaluated(netdesc.signature(desc) + repr((a == desc['ref'], b == desc['ref'], case['stratum'])), nontrivial)
        if st == 'ok' and a != b and refd is not None and zref is not None and abs(zref) == 0:
            v0 = call(bpa.open_circuit_voltage, net, a, b)
            e0 = refd['rep']['phi'][a] - refd['rep']['phi'][b]
            ctx.count('open_circuit_voltages_compared')
            if raised(v0) or abs(complex(v0) - e0) > refd['tol'] * refd['s_phi'] * 4:
                ctx.violation(f'{prefix}/open-circuit-voltage/mismatch-across-ideal-source', f'open_circuit_voltage({a!r},{b!r}) = {v0!r}, exact {e0!r}', {})
        if st != 'ok' or a == b:
            continue
        # symmetry and independence of the reference node (relations on the library's own outputs)
        z2 = call(na.open_circuit_impedance, net, b, a)
        kappa, tol = ztol(ref_net, zref, a, b)
        if raised(z2) or abs(complex(z2) - z) > 2 * tol:
            ctx.violation(f'{prefix}/asymmetric', f'Z({a!r},{b!r}) = {z!r} but Z({b!r},{a!r}) = {z2!r}', {})
        newg = ctx.rng.choice(ns)
        net_g = call(trf.switch_ground_node, net, newg)
        z3 = call(na.open_circuit_impedance, net_g, a, b) if not raised(net_g) else net_g
        if raised(z3) or abs(complex(z3) - z) > 2 * tol:
            ctx.violation(f'{prefix}/depends-on-reference-node', f'Z({a!r},{b!r}) = {z!r} with reference {desc["ref"]!r} but {z3!r} with reference {newg!r}', {})
        ctx.count('relations_checked')
        # a user-supplied node numbering (node_index_mapper) must not change a port impedance
        from .. import mappers
        from CircuitCalculator.Network.NodalAnalysis import label_mapping as lm
        nm = mappers.permuted(lm.default_node_mapper, ctx.rng.getrandbits(30))
        z4 = call(na.open_circuit_impedance, net, a, b, nm)
        ctx.count('custom_numbering_ports')
        if raised(z4) or abs(complex(z4) - zref) > tol:
            ctx.violation(f'{prefix}/custom-node-numbering/open_circuit_impedance', f'Z({a!r},{b!r}) = {z4 if raised(z4) else complex(z4)!r} with a permuted node numbering, exact {zref!r}', {})
        if refd is None:
            continue
        # Thevenin relations: Isc = Voc / Zth, load test through the library's own solver
        voc_ref = refd['rep']['phi'][a] - refd['rep']['phi'][b]
        voc = call(bpa.open_circuit_voltage, net, a, b)
        if raised(voc):
            ctx.violation(f'{prefix}/open-circuit-voltage/raised/{voc.key}', voc.text, {})
            continue
        ctx.count('open_circuit_voltages_compared')
        if abs(complex(voc) - voc_ref) > refd['tol'] * refd['s_phi'] * 4:
            ctx.violation(f'{prefix}/open-circuit-voltage/mismatch', f'open_circuit_voltage({a!r},{b!r}) = {complex(voc)!r}, exact {voc_ref!r}', {})
            continue
        if abs(zref) > 0:
            isc = call(bpa.short_circuit_current, net, a, b)
            isc_ref = voc_ref / zref
            s_i = max(refd['s_i'], abs(isc_ref))
            if raised(isc) or abs(complex(isc) - isc_ref) > (refd['tol'] + tol / max(abs(zref), 1e-300)) * s_i * 4:
                ctx.violation(f'{prefix}/short-circuit-current', f'short_circuit_current({a!r},{b!r}) = {isc!r}, exact Voc/Zth = {isc_ref!r}', {})
            ctx.count('isc_checked')
            for zl in [abs(zref) * f for f in (0.5, 1.0, 3.0)][:2] + [complex(abs(zref), -abs(zref))]:
                used = {x['id'] for x in desc['branches']}
                lid = next(i for i in ('ZL', 'ZL_', 'ZL__', 'load*') if i not in used)
                d2 = copy.deepcopy(desc)
                zl = complex(zl)
                d2['branches'].append({'id': lid, 'n1': a, 'n2': b, 'ctor': 'impedance', 'Z': [zl.real, zl.imag]})
                rd2 = netsolve.reference(d2)
                if rd2 is None or rd2['kappa'] > netsolve.KAPPA_MAX:
                    continue
                n2 = call(netdesc.to_lib, d2)
                sol = call(bpa.nodal_analysis_bias_point_solver, n2) if not raised(n2) else n2
                v = call(sol.get_voltage, lid) if not raised(sol) else sol
                if raised(v):
                    ctx.violation(f'{prefix}/load-test/raised/{v.key}', v.text, {})
                    continue
                expect = complex(voc) * zl / (z + zl)
                lim = (rd2['tol'] + refd['tol']) * max(refd['s_phi'], rd2['s_phi']) * 8 + tol / abs(z + zl) * abs(complex(voc))
                if abs(complex(v) - expect) > lim:
                    ctx.violation(f'{prefix}/load-test/mismatch', f'load {zl!r} across ({a!r},{b!r}): V = {complex(v)!r}, Voc*ZL/(Zth+ZL) = {expect!r}', {})
                ctx.count('load_tests')
        # Thevenin / Norton parameter objects
        tn = call(_equivalents, net, a, b)
        if raised(tn):
            ctx.violation(f'{prefix}/equivalent-sources/raised/{tn.key}', f'Thevenin/Norton equivalent objects: {tn.text}', {})
        else:
            th, no = tn
            if abs(complex(th.U) - complex(voc)) > refd['tol'] * refd['s_phi'] or abs(complex(th.Z) - z) > tol:
                ctx.violation(f'{prefix}/equivalent-sources/thevenin', f'TheveninEquivalentSource U={th.U!r} Z={th.Z!r}, expected {voc!r}, {z!r}', {})
            if abs(zref) > 0 and no is not None:
                if abs(complex(no.Y) - 1 / z) > 4 * tol / abs(z) ** 2 or abs(complex(no.I) - complex(voc) / z) > 8 * (refd['tol'] * refd['s_phi'] / abs(z) + tol * abs(complex(voc)) / abs(z) ** 2):
                    ctx.violation(f'{prefix}/equivalent-sources/norton', f'NortenEquivalentSource I={no.I!r} Y={no.Y!r}, expected {complex(voc) / z!r}, {1 / z!r}', {})
            ctx.count('equivalent_objects_checked')
    # impedance seen by elements
    brs = list(desc['branches'])
    ctx.rng.shuffle(brs)
    for b in brs[:3]:
        rest = {'ref': ref_net['ref'], 'branches': [x for x in ref_net['branches'] if x['id'] != b['id']]}
        st, zref = tableau.port_impedance(rest, b['n1'], b['n2'])
        if st == 'detached':
            # the element is the only conducting link between its terminals (possibly the only branch at the reference node)
            z = call(na.element_impedance, net, b['id'])
            ctx.count('detached_elements_judged')
            if raised(z):
                ctx.violation(f'{prefix}/element_impedance/detached/raised/{z.key}', f'element_impedance({b["id"]!r}) raised {z.text}; without the element its terminals are not connected, the impedance it sees is infinite', {})
            elif not np.isinf(abs(complex(z))):
                ctx.violation(f'{prefix}/element_impedance/detached/finite', f'element_impedance({b["id"]!r}) = {z!r}; without the element its terminals are not connected', {})
            continue
        if st != 'ok':
            ctx.count('set_aside_infinite_port')
            continue
        kappa, tol = ztol(rest, zref, b['n1'], b['n2'])
        if kappa > netsolve.KAPPA_MAX:
            continue
        if ref_net['ref'] not in [n for x in rest['branches'] for n in (x['n1'], x['n2'])]:
            ctx.count('elements_carrying_the_reference_node')
        z = call(na.element_impedance, net, b['id'])
        ctx.count('element_impedances_judged')
        if raised(z):
            isl = 'with-floating-island' if _has_island(rest, b['n1']) else 'no-island'
            ctx.violation(f'{prefix}/element_impedance/raised/{z.key}/{isl}', f'element_impedance({b["id"]!r}) raised {z.text}; exact {zref!r}', {})
        elif abs(complex(z) - zref) > tol:
            ctx.violation(f'{prefix}/element_impedance/mismatch', f'element_impedance({b["id"]!r}) = {complex(z)!r}, exact {zref!r}', {})
        else:
            from .. import mappers
            from CircuitCalculator.Network.NodalAnalysis import label_mapping as lm
            z5 = call(na.element_impedance, net, b['id'], mappers.permuted(lm.default_node_mapper, ctx.rng.getrandbits(30)))
            if raised(z5) or abs(complex(z5) - zref) > tol:
                ctx.violation(f'{prefix}/custom-node-numbering/element_impedance', f'element_impedance({b["id"]!r}) = {z5 if raised(z5) else complex(z5)!r} with a permuted node numbering, exact {zref!r}', {})
    if judged_any:
        ctx.sample(case)


def _equivalents(net, a, b):
    from CircuitCalculator.Network import equivalent_sources as eq
    th = eq.TheveninEquivalentSource(net, a, b)
    try:
        no = eq.NortenEquivalentSource(net, a, b)
    except ZeroDivisionError:
        no = None
    return th, no


def judge_circuit(case, ctx, prefix):
    from CircuitCalculator.Circuit import impedance as cimp
    import numpy as np
    cd = case['circuit']
    circ = call(circdesc.to_lib, cd)
    if raised(circ):
        ctx.violation(f'{prefix}/valid-circuit-rejected/{circ.key}', circ.text, {})
        return
    ns = circdesc.nodes(cd)
    if len(ns) < 2:
        return
    a, b = case.get('port') or ctx.rng.sample(ns, 2)
    comp = ctx.rng.choice([c for c in cd['components'] if c['ctor'] != 'ground'])

    def in_domain(port_of):
        """frequencies of the sweep at which the exact port impedance is finite and well-conditioned"""
        out = []
        for w in case['ws']:
            ref_net, pa, pb = port_of(w)
            if ref_net is None:
                continue
            st, zref = tableau.port_impedance(ref_net, pa, pb)
            if st != 'ok':
                ctx.count('set_aside_infinite_port')
                continue
            kappa, tol = ztol(ref_net, zref, pa, pb)
            if kappa > netsolve.KAPPA_MAX:
                continue
            island = _has_island(ref_net, pa)
            out.append((w, zref, tol, island))
        return out

    def node_port(w):
        return circdesc.ref_network(cd, w), a, b

    def element_port(w):
        ref_net = circdesc.ref_network(cd, w)
        rest = {'ref': ref_net['ref'], 'branches': [x for x in ref_net['branches'] if x['id'] != comp['id']]}
        if ref_net['ref'] not in [n for x in rest['branches'] for n in (x['n1'], x['n2'])]:
            return None, None, None
        return rest, comp['nodes'][0], comp['nodes'][1]

    for label, port_of, fn, args in (('circuit-sweep', node_port, cimp.open_circuit_impedance, (a, b)),
                                     ('circuit-element-sweep', element_port, cimp.element_impedance, (comp['id'],))):
        dom = in_domain(port_of)
        if not dom:
            continue
        zs = call(fn, circ, *args, np.array([w for w, *_ in dom]))
        isl = 'with-floating-island' if any(i for *_, i in dom) else 'no-island'
        if raised(zs):
            ctx.violation(f'{prefix}/{label}/raised/{zs.key}/{isl}', f'Circuit.impedance.{fn.__name__}{args!r} over w={[w for w, *_ in dom]!r} raised {zs.text}', {})
            continue
        for k, (w, zref, tol, island) in enumerate(dom):
            ctx.count('sweep_points_judged' if label == 'circuit-sweep' else 'sweep_element_points_judged')
            ctx.evaluated(circdesc.signature(cd, (label, w == 0, island)), abs(zref) > 0)
            if abs(complex(zs[k]) - zref) > tol:
                ctx.violation(f'{prefix}/{label}/mismatch/{"dc" if w == 0 else "ac"}', f'{fn.__name__}{args!r} at w={w!r} = {complex(zs[k])!r}, exact {zref!r}', {})
        if dom[0][0] == 0 and label == 'circuit-sweep':
            r = call(cimp.open_circuit_dc_resistance, circ, a, b)
            if raised(r) or abs(complex(r) - dom[0][1].real) > dom[0][2]:
                ctx.violation(f'{prefix}/circuit-dc-resistance', f'open_circuit_dc_resistance({a!r},{b!r}) = {r!r}, exact {dom[0][1].real!r}', {})
            ctx.count('dc_resistance_checked')
        if dom[0][0] == 0 and label == 'circuit-element-sweep':
            r = call(cimp.element_dc_resistance, circ, comp['id'])
            if raised(r) or abs(complex(r) - dom[0][1].real) > dom[0][2]:
                ctx.violation(f'{prefix}/circuit-element-dc-resistance', f'element_dc_resistance({comp["id"]!r}) = {r!r}, exact {dom[0][1].real!r}', {})
    ctx.sample(case)


def _has_island(ref_net, a):
    """is there a group of >= 2 nodes, conductively connected among themselves, that is attached to the port's part only
    through open branches (deactivated network)?"""
    cond = [x for x in ref_net['branches'] if tableau.normalise(x)[0] not in ('open', 'I')]
    comp, fr = {a}, [a]
    while fr:
        n = fr.pop()
        for x in cond:
            for p, q in ((x['n1'], x['n2']), (x['n2'], x['n1'])):
                if p == n and q not in comp:
                    comp.add(q); fr.append(q)
    return any(x['n1'] not in comp and x['n2'] not in comp and x['n1'] != x['n2'] for x in cond)


def guards(m, tier):
    c = m['counters']
    r = []
    if c.get('ports_judged', 0) < (1500 if tier == 'quick' else 30000):
        r.append(f"only {c.get('ports_judged', 0)} ports judged")
    for k in ('relations_checked', 'load_tests', 'isc_checked', 'element_impedances_judged', 'sweep_points_judged', 'port_across-ideal-vsource', 'port_floating-port'):
        if c.get(k, 0) < 30:
            r.append(f'{k} = {c.get(k, 0)} (<30)')
    return r
