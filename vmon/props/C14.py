"""C14 - numbers written on a schematic are the true circuit quantities."""
from __future__ import annotations
import cmath, copy, math, random
from ..gen import drawings as D, networks as G
from .. import circdesc
from ..oracles import netsolve
from ..observe import call, raised
from . import C13, C18

TITLE = "C14 voltage/current/power/potential labels denote the solution of the depicted circuit in the element's direction, negated iff reverse"
LEVEL = 'exploration'
RULE = ("drawings of C13 with a well-posed depicted circuit; every element x {voltage, current, power} x reverse in {False, True} and every "
        "labelled node's potential, through the four solution adapters (real/DC, complex, single-frequency complex with precision 1-6, polar, "
        "degrees; single-frequency time-domain steady state with sine/degree/hertz options) and through declarative create_schematic "
        "descriptions (dc/real/complex/single_frequency_time_domain sections with voltages/currents/powers/potentials lists). Oracle: "
        "the label text is parsed back by the independent decimal parser of C18 and compared with the EXACT solution of the depicted "
        "netlist (orientation of the translated component, 1/sqrt2 for the RMS adapters). Non-trivial: finite non-zero expected quantity; "
        "distinct by (adapter, options, quantity, element kind, reverse).")
ASSUMPTIONS = [
    "expected quantity = exact tableau solution of the netlist the drawing depicts (C13 model), in the orientation of the translated component; complex adapters show RMS phasors (peak/sqrt 2) as the library defines them",
    "a label must lie within half a unit of its displayed precision of the expected value, plus the numerical tolerance of the solve",
    "labels hit by the two recorded C18 range-rule findings (infinity sign at precision < 3, suppressed small part) are set aside here, not re-reported",
    "the sinusoidal adapter is checked for consistency with the complex annotation (amplitude = magnitude of the displayed phasor), as DESIGN 5/C14 states",
]
N_PROG = {'quick': 240, 'thorough': 3600}
N_DECL = {'quick': 96, 'thorough': 1600}
W_RES = 1e-3


class Proxy:
    """forwards to the shard context; re-files the recorded C18 range-rule mechanisms as set-aside"""
    def __init__(self, ctx):
        self._c = ctx
        self.hit_known_c18 = False

    def __getattr__(self, k):
        return getattr(self._c, k)

    def violation(self, key, what, details=None, case=None):
        if 'integer-mantissa-exponent' in key:
            self.hit_known_c18 = True
            self._c.count('set_aside_c18_known_range_rule')
            return
        self._c.violation(key, what, details, case)


def generate(tier, seed, shard, nshards):
    rng = random.Random(f'C14/{seed}/{shard}')
    for k in range(N_PROG[tier] // nshards):
        if k % 5 == 4:
            # almost resistive AC circuits: phase angles of a few hundredths to a few tenths of a degree (the smallest angles a
            # polar label still has to show)
            prog, family, w = small_angle_program(rng)
            yield {'kind': 'drawing', 'program': prog, 'family': family, 'w': w, 'oseed': rng.getrandbits(32), 'stratum': 'almost-resistive', 'force_polar': True}
            continue
        prog, family, w = C13.make_program(rng)
        yield {'kind': 'drawing', 'program': prog, 'family': family, 'w': w, 'oseed': rng.getrandbits(32)}
    for _ in range(N_DECL[tier] // nshards):
        yield {'kind': 'declarative', 'seed': rng.getrandbits(32)}


def small_angle_program(rng):
    """AC source - R - L loop (optionally a second resistor across the inductor or a small capacitor across the resistor) with
    w L = u R, u in [2e-4, 1e-2]: every resistor voltage/current has a phase between about 0.01 and 0.6 degrees"""
    w = G.value(rng, 1, 4) if rng.random() < 0.6 else G.value(rng, 5, 8)      # up to the 100 MHz range (frequency shown in Hz with its own prefixes)
    R = G.value(rng, 0, 4)
    u = 10 ** rng.uniform(-3.7, -2.0)
    V = G.value(rng, 0, 2)
    comps = [{'ctor': 'ac_voltage_source', 'id': 'Vs', 'nodes': ['N1', 'N0'], 'args': {'V': V, 'w': w, 'phi': 0.0}},
             {'ctor': 'resistor', 'id': 'R1', 'nodes': ['N1', 'N2'], 'args': {'R': R}},
             {'ctor': 'inductance', 'id': 'L1', 'nodes': ['N2', 'N0'], 'args': {'L': float(f'{u * R / w:.4g}')}}]
    k = rng.randrange(3)
    if k == 1:
        comps.append({'ctor': 'resistor', 'id': 'R2', 'nodes': ['N2', 'N0'], 'args': {'R': G.value(rng, 0, 4)}})
    elif k == 2:
        comps.append({'ctor': 'capacitor', 'id': 'C1', 'nodes': ['N1', 'N2'], 'args': {'C': float(f'{10 ** rng.uniform(-3.7, -2.0) / (R * w):.4g}')}})
    rng.shuffle(comps)
    cd = {'components': comps + [{'ctor': 'ground', 'id': 'gnd', 'nodes': ['N0'], 'args': {}}]}
    labels = {'N2': 'x'} if rng.random() < 0.5 else {}
    return D.embed(rng, cd, labels=labels), 'ac', w


def label_text(el):
    ls = getattr(el, '_userlabels', [])
    return ls[-1].label if ls else None


def expected_quantities(net, circ, family, w):
    """exact reference of the depicted netlist, re-oriented like the translated components -> dict or None"""
    lib = {c.id: c for c in circ.components if c.type != 'ground'}
    # node bijection from terminals (validated by C13)
    l2m = {}
    for c in net['components']:
        lc = lib[c['id']]
        ln = list(lc.nodes)
        mn = list(c['nodes'])
        src = c['ctor'].endswith('source') or c['ctor'] == 'short_circuit'
        l2m.setdefault(ln[0], None)
    g = net['ground']
    if g is None:
        return None
    cd = {'components': [{'ctor': 'ground', 'id': '__g', 'nodes': [g], 'args': {}}] + net['components']}
    wa = 0.0 if family in ('dc', 'complex') else w
    refd = netsolve.reference_from_ref(circdesc.ref_network(cd, wa, W_RES))
    if refd is None or refd['kappa'] > 1e6 or refd['trivial']:
        return None
    return refd, wa


def orientation(net, circ, name_of):
    """+1 if the translated component has the model's terminal order, -1 if swapped (reversed sources)"""
    lib = {c.id: c for c in circ.components if c.type != 'ground'}
    out = {}
    for c in net['components']:
        ln = list(lib[c['id']].nodes)
        a, b = c['nodes']
        na, nb = name_of.get(a), name_of.get(b)
        if na is not None and nb is not None and na != nb:
            out[c['id']] = 1 if ln == [na, nb] else -1
        elif na is not None:
            out[c['id']] = 1 if ln[0] == na else -1
        elif nb is not None:
            out[c['id']] = 1 if ln[1] == nb else -1
        else:
            out[c['id']] = None
    return out


def judge(case, ctx, prefix='C14'):
    if case['kind'] == 'declarative':
        return judge_declarative(case, ctx, prefix)
    from CircuitCalculator.SimpleCircuit.DiagramTranslator import circuit_translator
    from CircuitCalculator.SimpleCircuit import DiagramSolution as ds
    prog, family, w = case['program'], case['family'], case['w']
    rng = random.Random(case['oseed'])
    net = D.intended_netlist(prog)
    if net['ground'] is None or C13.rounding_boundary(prog) or not C13.well_separated(prog):
        ctx.count('set_aside_no_ground_or_geometry')
        return
    d = call(D.build, prog)
    if raised(d) or not D.geometry_ok(prog, d):
        ctx.count('set_aside_no_ground_or_geometry')
        return
    circ = call(circuit_translator, d)
    if raised(circ):
        ctx.count('set_aside_translation_failed')          # C13's business
        return
    eq = expected_quantities(net, circ, family, w)
    if eq is None:
        ctx.count('set_aside_ill_posed_or_trivial')
        return
    refd, wa = eq
    # names of the model's node classes as the library calls them: labelled ones by label, others through any translated component
    lib = {c.id: c for c in circ.components if c.type != 'ground'}
    name_of = dict(net['names'])
    changed = True
    while changed:
        changed = False
        for c in net['components']:
            ln = list(lib[c['id']].nodes)
            a, b = c['nodes']
            for x, y in ((a, b), (b, a)):
                if x in name_of and y not in name_of and a != b:
                    other = [n for n in ln if n != name_of[x]]
                    if len(other) == 1:
                        name_of[y] = other[0]; changed = True
    orient = orientation(net, circ, name_of)
    rep = refd['rep']
    adapters = []
    if family == 'dc':
        p = rng.randint(1, 6)
        adapters.append(('real', lambda: ds.real_solution(d, precision=p), {'p': p, 'mode': 'real', 'scale': 1.0}))
        if rng.random() < 0.5:
            # the time-function annotation of a DC circuit (w = 0): a constant with its sign
            sin0, dg0, hz0 = rng.random() < 0.5, rng.random() < 0.5, rng.random() < 0.5
            adapters.append(('time-domain', lambda: ds.single_frequency_time_domain_steady_state_solution(d, w=0.0, sin=sin0, deg=dg0, hertz=hz0),
                             {'p': 3, 'mode': 'sinus', 'sin': sin0, 'deg': dg0, 'hertz': hz0, 'scale': 1.0, 'power_factor': 0.5}))
    else:
        p = rng.randint(1, 6)
        polar, deg = rng.random() < 0.5, rng.random() < 0.5
        if case.get('force_polar'):
            polar = True
            ctx.count('almost_resistive_drawings')
        if family == 'complex':
            adapters.append(('complex', lambda: ds.complex_solution(d, precision=p, polar=polar, deg=deg), {'p': p, 'mode': 'complex', 'polar': polar, 'deg': deg, 'scale': 1 / math.sqrt(2)}))
        else:
            adapters.append(('single-frequency-complex', lambda: ds.single_frequency_complex_solution(d, w=wa, precision=p, polar=polar, deg=deg),
                             {'p': p, 'mode': 'complex', 'polar': polar, 'deg': deg, 'scale': 1 / math.sqrt(2)}))
            sin, dg, hz = rng.random() < 0.5, rng.random() < 0.5, rng.random() < 0.5
            adapters.append(('time-domain', lambda: ds.single_frequency_time_domain_steady_state_solution(d, w=wa, sin=sin, deg=dg, hertz=hz),
                             {'p': 3, 'mode': 'sinus', 'sin': sin, 'deg': dg, 'hertz': hz, 'scale': 1.0, 'power_factor': 0.5}))
    ctx.sample({'program': prog, 'family': family, 'adapters': [a[0] for a in adapters]})
    for aname, make, opt in adapters:
        sol = call(make)
        if raised(sol):
            ctx.violation(f'{prefix}/adapter-raised/{aname}/{sol.key}', f'{aname} adapter raised {sol.text}', {})
            continue
        sc = opt['scale']
        for c in net['components']:
            o = orient[c['id']]
            if o is None:
                continue
            ev, ei = rep['V'][c['id']] * o * sc, rep['I'][c['id']] * o * sc
            quantities = {'voltage': (ev, 'V', refd['s_phi'] * sc), 'current': (ei, 'A', refd['s_i'] * sc)}
            if opt['mode'] == 'real':
                quantities['power'] = (complex(ev.real * ei.real), 'W', refd['s_phi'] * refd['s_i'])
            else:
                # RMS phasors: S = V conj(I); peak phasors (the time-function adapter): S = 1/2 V conj(I)
                quantities['power'] = (opt.get('power_factor', 1.0) * ev * ei.conjugate(), 'W', refd['s_phi'] * refd['s_i'] * sc * sc)
            for q, (val, unit, s) in quantities.items():
                for rev in (False, True):
                    f = {'voltage': sol.draw_voltage, 'current': sol.draw_current, 'power': sol.draw_power}[q]
                    lab = call(f, c['id'], rev)
                    judge_label(ctx, prefix, aname, q, c['ctor'], lab, (-val if rev else val), unit, opt, refd['tol'] * s * 8, wa, rev)
                    if not raised(lab):
                        # the number belongs to an element: the label is anchored on the element it was asked for (whichever of
                        # that element's anchors the library chooses), not on some other symbol
                        sym = next((e for e in d.elements if getattr(e, 'name', None) == c['id'] and hasattr(e, 'absanchors')), None)
                        where = lab._userparams.get('at')
                        if sym is not None and where is not None and not hasattr(where, 'absanchors'):
                            ctx.count('label_attachments_checked')
                            if not any(abs(where[0] - a[0]) <= 1e-6 and abs(where[1] - a[1]) <= 1e-6 for a in sym.absanchors.values()):
                                ctx.violation(f'{prefix}/{aname}/{q}-label-not-on-its-element', f'{q} label of {c["id"]!r} is anchored at {tuple(where)!r}, which is none of the anchors of that symbol', {})
        for mn, name in net['names'].items():
            lab = call(sol.draw_potential, name) if any(getattr(e, 'name', None) == name for e in d.elements) else None
            if lab is None:
                continue
            judge_label(ctx, prefix, aname, 'potential', 'node', lab, rep['phi'][mn] * sc, 'V', opt, refd['tol'] * refd['s_phi'] * sc * 8, wa, False)
            # a potential is the potential OF A NODE: the label has to sit on the node it was asked for
            if not raised(lab):
                node_sym = next(e for e in d.elements if getattr(e, 'name', None) == name)
                where = lab._userparams.get('at')
                want = node_sym.absanchors['start']
                ctx.count('potential_label_positions_checked')
                if where is None or abs(where[0] - want[0]) > 1e-6 or abs(where[1] - want[1]) > 1e-6:
                    held = any(s.get('hold') for s, e in getattr(d, '_vmon_placed', []) if e is node_sym)
                    ctx.violation(f'{prefix}/{aname}/potential-label-on-another-point/{"held-node" if held else "node"}',
                                  f'potential label of node {name!r} is placed at {tuple(where) if where is not None else None!r}, the node symbol is at {tuple(want)!r}', {})


def judge_label(ctx, prefix, aname, q, ctor, lab, val, unit, opt, numtol, w, rev):
    """lab: label element (or Raised); val: expected complex quantity"""
    px = Proxy(ctx)
    where = f'{aname}/{q}'
    if raised(lab):
        ctx.violation(f'{prefix}/label-raised/{where}/{lab.key}', f'drawing the {q} label of a {ctor} raised {lab.text}', {})
        return
    text = label_text(lab)
    ctx.count('labels_judged'); ctx.count(f'labels_{aname}')
    if text is None:
        ctx.violation(f'{prefix}/label-missing/{where}', f'no text on the {q} label', {})
        return
    mode, p = opt['mode'], opt['p']
    tbl = C18.TABLES['display']
    nontrivial = abs(val) > 0
    ctx.evaluated(repr((aname, q, ctor, rev, p, opt.get('polar'), opt.get('deg'), opt.get('sin'), opt.get('hertz'))), nontrivial)
    n0 = ctx.counters.get('violations_total', 0)
    if mode == 'real':
        x = val.real
        if q == 'power':
            if not (text.endswith('↓') or text.endswith('↑')):
                ctx.violation(f'{prefix}/{where}/no-direction-arrow', f'{text!r}', {})
                return
            # direction only meaningful when the power is not numerically zero
            if abs(x) > numtol and (text.endswith('↓') != (x > 0)):
                ctx.violation(f'{prefix}/{where}/direction', f'power {x!r} rendered as {text!r}', {})
                return
            ok = judge_value(px, prefix, where, text[:-1], abs(x), p, 'W', C18.TABLES['default'], numtol)
        else:
            ok = judge_value(px, prefix, where, text, x, p, unit, tbl, numtol)
    elif mode == 'complex':
        judge_complex_value(px, prefix, where, text, val, p, unit, tbl, opt['polar'], opt['deg'], numtol)
    else:
        judge_sinus_value(px, prefix, where, text, val, unit, p, w, opt['sin'], opt['deg'], opt['hertz'], numtol)


def _close_enough(x_expected, numtol, p):
    """candidate values the displayed number may legitimately be the rounding of"""
    return [x_expected - numtol, x_expected, x_expected + numtol]


def judge_value(ctx, prefix, where, text, x, p, unit, tbl, numtol):
    """real quantity: the text must be an acceptable rendering of some value within numtol of x"""
    from ..ref import numparse
    try:
        pr = numparse.parse_real(text, unit, tbl)
    except numparse.ParseError as e:
        ctx.violation(f'{prefix}/{where}/unparsable', f'{text!r}: {e}', {})
        return False
    if pr.infinite:
        return C18.judge_real(ctx, prefix, text, x, p, unit, tbl, where) if abs(x) > numtol else True
    from decimal import Decimal
    hu = numparse.half_unit(x, p) if x != 0 else Decimal(0)
    err = abs(pr.value - Decimal(x))
    lim = hu + Decimal(numtol) + abs(Decimal(x)) * Decimal('1e-12')
    # a value close to zero may be rendered with the precision of its neighbours
    if x != 0 and abs(x) <= 4 * numtol:
        lim = Decimal(5 * numtol) + numparse.half_unit(5 * numtol, p)
    if err > lim:
        ctx.violation(f'{prefix}/{where}/wrong-number', f'label {text!r} = {pr.value}, expected {x!r} (half unit {hu}, numerical tolerance {numtol:.3g})', {})
        return False
    if (pr.value < 0) != (x < 0) and abs(x) > 4 * numtol and pr.value != 0:
        ctx.violation(f'{prefix}/{where}/sign', f'label {text!r}, expected {x!r}', {})
        return False
    return True


def judge_complex_value(ctx, prefix, where, text, z, p, unit, tbl, polar, deg, numtol):
    from ..ref import numparse
    try:
        if polar:
            if '∠' in text:
                mag_t, ang_t = text.split('∠', 1)
                ang = float(ang_t.rstrip('°'))
            else:
                mag_t, ang = text, 0.0
            if not judge_value(ctx, prefix, where + '/magnitude', mag_t, abs(z), p, unit, tbl, numtol):
                return
            if abs(z) > 16 * numtol:
                true = math.degrees(cmath.phase(z)) if deg else cmath.phase(z)
                dlt = abs(ang - true)
                full = 360.0 if deg else 2 * math.pi
                dlt = min(dlt, abs(full - dlt))
                lim = (0.5e-2 if deg else 0.5e-4) * 2.01 + (math.degrees(1) if deg else 1) * numtol / abs(z) * 2 + (1e-2 if deg else 1e-4 if '∠' not in text else 0)
                if dlt > lim:
                    ctx.violation(f'{prefix}/{where}/wrong-angle', f'label {text!r}, expected angle {true!r} of {z!r}', {})
            return
        re_t, rneg, im_t, ineg = C18.split_complex(text)
    except (numparse.ParseError, ValueError) as e:
        ctx.violation(f'{prefix}/{where}/unparsable', f'{text!r}: {e}', {})
        return
    for nm, txt, neg, x, other in (('real', re_t, rneg, z.real, z.imag), ('imag', im_t, ineg, z.imag, z.real)):
        if txt is None or txt == '':
            if abs(x) > 4 * numtol and not C18.part_suppressible(x, other, p, tbl, True):
                ctx.violation(f'{prefix}/part-suppressed/{C18.suppression_mechanism(x, p, tbl, True)}', f'label {text!r} lacks the {nm} part {x!r} of {z!r}', {})
                return
            continue
        if not judge_value(ctx, prefix, where + '/' + nm, ('-' if neg else '') + txt, x, p, unit, tbl, numtol):
            return


def judge_sinus_value(ctx, prefix, where, text, z, unit, p, w, sin, deg, hertz, numtol):
    q = C18.parse_sinusoid(text, unit, p)
    if w == 0:
        # a constant: the label denotes Re(z) = |z| cos(phase), sign included (and so changes sign when requested in reverse)
        ctx.count('sinusoid_dc_labels_judged')
        if q['fn'] is not None:
            ctx.violation(f'{prefix}/{where}/dc-rendered-as-oscillation', f'{text!r}', {})
        elif abs(z.real) > 16 * numtol:
            judge_value(ctx, prefix, where + '/dc-value', text, z.real, p, unit, C18.TABLES['display'], numtol)
        return
    if not judge_value(ctx, prefix, where + '/amplitude', q['amp'], abs(z), p, unit, C18.TABLES['display'], numtol):
        return
    if abs(z) <= 16 * numtol:
        return
    if q['fn'] is None or (q['fn'] == 'sin') != bool(sin) or q['hertz'] != bool(hertz):
        ctx.violation(f'{prefix}/{where}/wrong-form', f'{text!r} (sin={sin}, hertz={hertz})', {})
        return
    from ..ref import numparse
    # the frequency written inside the function: w in 1/s, or w / 2 pi in Hz with the hertz prefix table
    if q.get('w') is not None:
        if hertz:
            okf = judge_value(ctx, prefix, where + '/frequency', q['w'], w / 2 / math.pi, p, 'Hz', C18.TABLES['hertz'], 0.0)
        else:
            okf = judge_value(ctx, prefix, where + '/frequency', q['w'], w, p, '/s', None, 0.0)
        if not okf:
            return
    true = cmath.phase(z) + (math.pi / 2 if sin else 0.0)
    if q['ph'] is None:
        printed = 0.0
    else:
        try:
            pr = numparse.parse_real(q['ph'], '°' if deg else '', None)
        except numparse.ParseError as e:
            ctx.violation(f'{prefix}/{where}/phase-unparsable', f'{text!r}: {e}', {})
            return
        printed = float(pr.value) * (1 if q['sg'] == '+' else -1)
        if deg:
            printed = math.radians(printed)
    diff = (printed - true + math.pi) % (2 * math.pi) - math.pi
    unit_p = 10 ** (math.floor(math.log10(max(abs(math.degrees(true)) if deg else abs(true), 1e-4))) - p + 1)
    lim = (math.radians(unit_p) if deg else unit_p) * 0.51 + 1.01e-4 + 2 * numtol / abs(z)
    ctx.count('sinusoid_labels_judged')
    if abs(diff) > lim:
        ctx.violation(f'{prefix}/{where}/wrong-phase/{"sin" if sin else "cos"}', f'label {text!r} for phasor {z!r}: printed phase {printed!r} rad, expected {true!r} rad', {})


# ---- declarative descriptions -------------------------------------------------------------------------------------------
def judge_declarative(case, ctx, prefix):
    from CircuitCalculator.SimpleSimulation.schematic import create_schematic
    from CircuitCalculator.SimpleCircuit import Elements as elm
    rng = random.Random(case['seed'])
    kind = rng.choice(['dc', 'real', 'complex', 'single_frequency_time_domain'])
    n = rng.randint(2, 4)
    w = 10 ** rng.uniform(1, 4)
    v = lambda: float(f'{10 ** rng.uniform(0, 3):.3g}')
    els, comps = [], []
    if kind in ('dc', 'real'):
        V = rng.choice([1, -1]) * v()
        els.append({'type': 'voltage_source', 'name': 'Vs', 'V': V, 'direction': 'up'})
        comps.append({'ctor': 'dc_voltage_source', 'id': 'Vs', 'nodes': ['n0', 'n1'], 'args': {'V': V}})
    elif kind == 'complex':
        V = complex(rng.choice([1, -1]) * v(), rng.choice([1, -1]) * v())
        els.append({'type': 'complex_voltage_source', 'name': 'Vs', 'V': V, 'direction': 'up'})
        comps.append({'ctor': 'complex_voltage_source', 'id': 'Vs', 'nodes': ['n0', 'n1'], 'args': {'V': [V.real, V.imag]}})
    else:
        V, phi = v(), rng.uniform(-3, 3)
        els.append({'type': 'ac_voltage_source', 'name': 'Vs', 'V': V, 'w': w, 'phi': phi, 'direction': 'up'})
        comps.append({'ctor': 'ac_voltage_source', 'id': 'Vs', 'nodes': ['n0', 'n1'], 'args': {'V': V, 'w': w, 'phi': phi}})
    node = 1
    passive = ['resistor', 'resistor', 'conductance', 'lamp'] + (['capacitor', 'inductance', 'impedance'] if kind not in ('dc', 'real') else [])
    dots = {}
    for k in range(n):
        t = rng.choice(passive) if k else 'resistor'
        nm = f'{t[0].upper()}{k}'
        last = k == n - 1
        a, b = f'n{node}', ('n0' if last else f'n{node + 1}')
        e = {'type': t, 'name': nm, 'direction': 'down' if last else 'right'}
        if t == 'resistor':
            e['R'] = v(); args = {'R': e['R']}
        elif t == 'conductance':
            e['G'] = 1 / v(); args = {'G': e['G']}
        elif t == 'capacitor':
            e['C'] = v() * 1e-7; args = {'C': e['C']}
        elif t == 'inductance':
            e['L'] = v() * 1e-4; args = {'L': e['L']}
        elif t == 'lamp':
            e['V_ref'] = v(); e['P_ref'] = v(); args = {'V_ref': e['V_ref'], 'P': e['P_ref']}
        else:
            z = complex(v(), rng.choice([1, -1]) * v()); e['Z'] = z; args = {'Z': [z.real, z.imag]}
        els.append(e)
        comps.append({'ctor': t, 'id': nm, 'nodes': [a, b], 'args': args})
        if not last and rng.random() < 0.5:
            els.append({'type': 'node', 'name': f'K{k}'})          # a named dot where the element ends
            dots[f'K{k}'] = b
        node += 1
    els.append({'type': 'line', 'direction': 'left', 'length': n - 1} if n > 1 else {'type': 'line', 'direction': 'left'})
    els.append({'type': 'ground'})
    names = [c['id'] for c in comps]
    sol = {'type': kind, 'voltages': [{'name': x, 'reverse': rng.random() < 0.5} for x in rng.sample(names, min(3, len(names)))],
           'currents': [{'name': x, 'reverse': rng.random() < 0.5} for x in rng.sample(names, min(2, len(names)))],
           'powers': [{'name': x} for x in rng.sample(names, 1)],
           'potentials': [{'name': x} for x in sorted(dots)]}
    p = 3
    if kind in ('dc', 'real', 'complex'):
        p = rng.randint(2, 5)
        sol['precision'] = p
    if kind == 'complex':
        sol['polar'] = rng.random() < 0.5
        sol['deg'] = rng.random() < 0.5
    if kind == 'single_frequency_time_domain':
        sol['w'] = w
        sol['precision'] = p = rng.randint(3, 5)
    if rng.random() < 0.4:
        # keys the chosen solution kind does not take (options of another kind, a remark): they are ignored, the kind's own options stay in force
        for k_, v_ in rng.sample([('hertz', True), ('sin', True), ('comment', 'lab 3'), ('peak', False)], 2):
            sol.setdefault(k_, v_)
        ctx.count('declarative_with_foreign_solution_keys')
    desc = {'unit': rng.choice([3, 4]), 'elements': els, 'solution': sol}
    if rng.random() < 0.4:
        desc['light_lamps'] = True                      # colours the lamp symbols by their power; the numbers must not notice
        ctx.count('declarative_with_light_lamps')
    ctx.sample({'declarative': C17_safe(desc)})
    before = repr(desc)
    sch = call(create_schematic, copy.deepcopy(desc))
    if raised(sch):
        ctx.violation(f'{prefix}/declarative/raised/{sch.key}', f'create_schematic raised {sch.text} for a valid description of kind {kind!r}', {})
        return
    # the geometry must close the loop: the line has to end on the source's start; otherwise the template itself is at fault
    cd = {'components': [{'ctor': 'ground', 'id': '__g', 'nodes': ['n0'], 'args': {}}] + comps}
    wa = w if kind == 'single_frequency_time_domain' else 0.0
    refd = netsolve.reference_from_ref(circdesc.ref_network(cd, wa, W_RES))
    if refd is None or refd['kappa'] > 1e6:
        ctx.count('set_aside_ill_posed_or_trivial')
        return
    from CircuitCalculator.SimpleCircuit.DiagramTranslator import circuit_translator
    circ = call(circuit_translator, sch)
    if raised(circ) or sorted(c.id for c in circ.components if c.type != 'ground') != sorted(names) or len({n for c in circ.components for n in c.nodes}) != n + 1:
        ctx.count('set_aside_template_geometry')
        return
    labels = [e for e in sch.elements if isinstance(e, (elm.VoltageLabel, elm.CurrentLabel, elm.PowerLabel))]
    wanted = [('voltage', x) for x in sol['voltages']] + [('current', x) for x in sol['currents']] + [('power', x) for x in sol['powers']]
    if len(labels) != len(wanted):
        ctx.violation(f'{prefix}/declarative/label-count/{kind}', f'{len(labels)} label symbols for {len(wanted)} requested annotations', {})
        return
    scale = 1.0 if kind in ('dc', 'real') else 1 / math.sqrt(2)
    rep = refd['rep']
    mode = 'real' if kind in ('dc', 'real') else 'complex'      # 'single_frequency_time_domain' maps to the complex adapter in the table
    opt = {'p': p, 'mode': mode, 'polar': sol.get('polar', False), 'deg': sol.get('deg', False), 'scale': scale}
    for lab, (q, req) in zip(labels, wanted):
        cid, rev = req['name'], req.get('reverse', False)
        if kind == 'single_frequency_time_domain':
            # the library binds this key to its complex single-frequency adapter (RMS phasors); a time function (peak amplitude)
            # would denote the same quantity just as well - the text itself says which of the two it is
            txt = None if raised(lab) else (label_text(lab) or '')
            as_time_function = txt is not None and ('cos(' in txt or 'sin(' in txt)
            scale = 1.0 if as_time_function else 1 / math.sqrt(2)
            opt = ({'p': 3, 'mode': 'sinus', 'sin': 'sin(' in (txt or ''), 'deg': '°' in (txt or ''), 'hertz': '2π' in (txt or ''), 'scale': 1.0} if as_time_function
                   else {'p': p, 'mode': 'complex', 'polar': sol.get('polar', False), 'deg': sol.get('deg', False), 'scale': scale})
            mode = opt['mode']
        ev, ei = rep['V'][cid] * scale, rep['I'][cid] * scale
        if q == 'voltage':
            val, unit, s = ev, 'V', refd['s_phi'] * scale
        elif q == 'current':
            val, unit, s = ei, 'A', refd['s_i'] * scale
        else:
            val = complex(ev.real * ei.real) if mode == 'real' else ev * ei.conjugate() * (0.5 if mode == 'sinus' else 1.0)
            unit, s = 'W', refd['s_phi'] * refd['s_i'] * scale * scale
        judge_label(ctx, prefix, 'declarative-' + kind, q, next(c['ctor'] for c in comps if c['id'] == cid), lab, (-val if rev else val), unit, opt, refd['tol'] * s * 8, wa, rev)
    plabels = [e for e in sch.elements if isinstance(e, elm.LabelNode)]
    if len(plabels) != len(sol['potentials']):
        ctx.violation(f'{prefix}/declarative/potential-label-count/{kind}', f'{len(plabels)} potential labels for {len(sol["potentials"])} requested', {})
        return
    for lab, req in zip(plabels, sol['potentials']):
        if kind == 'single_frequency_time_domain':
            txt = label_text(lab) or ''
            as_time_function = 'cos(' in txt or 'sin(' in txt
            scale = 1.0 if as_time_function else 1 / math.sqrt(2)
            opt = ({'p': 3, 'mode': 'sinus', 'sin': 'sin(' in txt, 'deg': '°' in txt, 'hertz': '2π' in txt, 'scale': 1.0} if as_time_function
                   else {'p': p, 'mode': 'complex', 'polar': sol.get('polar', False), 'deg': sol.get('deg', False), 'scale': scale})
        judge_label(ctx, prefix, 'declarative-' + kind, 'potential', 'node', lab, rep['phi'][dots[req['name']]] * scale, 'V', opt, refd['tol'] * refd['s_phi'] * scale * 8, wa, False)
        ctx.count('declarative_potential_labels')
    ctx.count('declarative_schematics')


def C17_safe(x):
    if isinstance(x, complex):
        return [x.real, x.imag]
    if isinstance(x, dict):
        return {k: C17_safe(v) for k, v in x.items()}
    if isinstance(x, list):
        return [C17_safe(v) for v in x]
    return x


def guards(m, tier):
    c = m['counters']
    r = []
    q = tier == 'quick'
    for k, need in (('labels_judged', 2500), ('labels_real', 400), ('labels_single-frequency-complex', 300), ('labels_time-domain', 300), ('labels_complex', 150),
                    ('declarative_schematics', 25)):
        need = need if q else need * 15
        if c.get(k, 0) < need:
            r.append(f'{k} = {c.get(k, 0)} (<{need})')
    return r
