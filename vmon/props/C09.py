"""C09 - multi-frequency steady state is the superposition of single-frequency solutions."""
from __future__ import annotations
import cmath, copy, math, random
import numpy as np
from ..gen import circuits as GC
from ..gen import networks as G
from .. import circdesc
from ..oracles import netsolve
from ..observe import call, raised

TITLE = "C09 frequency list, spectral lines and time functions = superposition of exact single-frequency phasor solutions"
LEVEL = 'exploration'
RULE = ("random RLC circuits (2-5 nodes) with mixes of DC, sinusoidal and periodic (rect/tri/saw/cos/sin) ideal sources; strata: an AC "
        "source frequency equal to a harmonic of a periodic source exactly, equal only to rounding (0.3 vs 3*0.1), unrelated; w_max on "
        "/ between harmonics; per circuit: frequency_components as clusters, one-sided and two-sided FrequencyDomainSolution lines "
        "against exact reference phasors, TimeDomainSolution on a 48-point grid against sum |X_k| cos(w_k t + arg X_k), KCL at every "
        "instant, additivity over sources, periodic source waveform reproduced within a Parseval tail bound. Non-trivial: >=2 analysed "
        "frequencies and a non-zero response; distinct by (circuit signature, stratum, number of lines).")
ASSUMPTIONS = [
    "reference phasor at each frequency from the exact component-level model (C02 oracle; periodic sources via the true Fourier coefficients of their own time function)",
    "frequency coincidence is judged within the library's default resolution 1e-3; a harmonic is expected iff k*w0 <= w_max in binary64 arithmetic; a reported harmonic within 4 ulp above w_max is tolerated",
    "sources are ideal (lossy sources are covered at their own frequency by C02)",
]
N_CIRC = {'quick': 2100, 'thorough': 20000}
W_RES = 1e-3
WAVES = ['rect', 'tri', 'saw', 'cos', 'sin']


def generate(tier, seed, shard, nshards):
    rng = random.Random(f'C09/{seed}/{shard}')
    for k in range(N_CIRC[tier] // nshards):
        stratum = ['unrelated', 'exact-coincidence', 'rounding-coincidence', 'no-periodic', 'near-coincidence'][k % 5]
        if k % 25 == 24:
            # three sinusoidal sources 0.8 resolutions apart: the middle one coincides (within the resolution) with both of its
            # neighbours, which do not coincide with each other - 'each counted once' has to hold all the same
            f0 = G.value(rng, 0, 2)
            for _ in range(20):
                cd = GC.random_circuit(rng, max_nodes=4, max_comps=6, passives=['resistor', 'resistor', 'conductance'], n_reactive=(0, 1),
                                       sources=['ac_voltage_source', 'ac_current_source'], n_sources=(3, 3), freqs=[f0], lossy=0.0, ground_prob=0.8)
                srcs_ = [c for c in cd['components'] if c['ctor'].startswith('ac_')]
                if len(srcs_) == 3:
                    break
            else:
                continue
            order = [0, 1, 2]
            rng.shuffle(order)
            for j, c in zip(order, srcs_):
                c['args']['w'] = f0 + j * 0.8 * W_RES
            yield {'circuit': cd, 'w_max': 2 * f0, 'stratum': 'chained-coincidence', 'w0': f0}
            continue
        if k % 25 == 23:
            # radio-frequency fundamentals: the harmonics k*w0 are far beyond 2**53 resolutions, so whether a harmonic 'is' an analysed
            # line cannot be decided from the rounded quotient w/w0
            w0 = 2 * math.pi * 10 ** rng.uniform(10.5, 12.5)
            for _ in range(20):
                cd = GC.random_circuit(rng, max_nodes=4, max_comps=6, passives=['resistor', 'resistor', 'conductance'], n_reactive=(0, 0),
                                       sources=['periodic_voltage_source', 'periodic_current_source', 'dc_voltage_source'], n_sources=(1, 2), freqs=[w0], lossy=0.0, ground_prob=0.8)
                if any(circdesc.is_periodic(c) for c in cd['components']):
                    break
            for c in cd['components']:
                if circdesc.is_periodic(c):
                    c['args']['w'] = w0
            yield {'circuit': cd, 'w_max': (rng.choice([16, 25, 40]) + 0.5) * w0, 'stratum': 'fast-fundamental', 'w0': w0}
            continue
        if k % 25 == 22:
            # a fundamental at or below the frequency resolution (periods of hours): neighbouring harmonics of ONE source lie within the
            # resolution of each other; the source's own waveform still has to come back
            w0 = rng.choice([rng.uniform(2e-4, 1e-3), 1e-3, 8e-4, 5e-4])
            for _ in range(20):
                cd = GC.random_circuit(rng, max_nodes=3, max_comps=4, passives=['resistor', 'resistor', 'conductance'], n_reactive=(0, 0),
                                       sources=['periodic_voltage_source'], n_sources=(1, 1), freqs=[w0], lossy=0.0, ground_prob=0.8)
                if any(c['ctor'] == 'periodic_voltage_source' for c in cd['components']):
                    break
            for c in cd['components']:
                if circdesc.is_periodic(c):
                    c['args']['w'] = w0
            yield {'circuit': cd, 'w_max': (rng.choice([3, 5, 8]) + 0.5) * w0, 'stratum': 'sub-resolution-fundamental', 'w0': w0}
            continue
        if stratum == 'near-coincidence':
            # an AC source close to a harmonic: either inside the resolution (one merged line, both sources active) or clearly
            # outside it but closer than w_resolution*w0 (two separate lines, the harmonic must not leak into the AC line)
            w0 = rng.choice([G.value(rng, 1, 3), rng.choice([0.1, 0.3, 0.7])])
            mult = rng.choice([1, 2, 3, 5])
            if rng.random() < 0.5 or w0 <= 1.5:
                wac = w0 * mult + rng.choice([-0.4, 0.4, -0.7, 0.7]) * W_RES
            else:
                wac = w0 * mult + rng.choice([-1, 1]) * W_RES * w0 * rng.choice([0.3, 0.6])
        elif stratum == 'rounding-coincidence':
            w0 = rng.choice([0.1, 0.7, 1.1, 0.3])
            mult = rng.choice([3, 6, 7])
            wac = float(f'{w0 * mult:.10g}')            # e.g. 0.3 while 3*0.1 = 0.30000000000000004
        else:
            w0 = G.value(rng, 0, 3)
            mult = rng.choice([1, 2, 3, 5])
            wac = w0 * mult if stratum == 'exact-coincidence' else G.value(rng, 0, 3)
        srcs = ['dc_voltage_source', 'ac_voltage_source', 'ac_current_source', 'dc_current_source']
        if stratum != 'no-periodic':
            srcs = ['periodic_voltage_source', 'periodic_current_source', 'ac_voltage_source', 'ac_current_source', 'dc_voltage_source']
        for _ in range(20):
            cd = GC.random_circuit(rng, max_nodes=5, max_comps=7, passives=['resistor', 'resistor', 'conductance', 'impedance'], n_reactive=(1, 2),
                                   sources=srcs, n_sources=(2, 3), freqs=[wac], lossy=0.0, ground_prob=0.8)
            per = [c for c in cd['components'] if circdesc.is_periodic(c)]
            if stratum == 'no-periodic' or per:
                break
        for c in cd['components']:
            if circdesc.is_periodic(c):
                c['args']['w'] = w0
        n_h = rng.choice([3, 4, 6])
        w_max = rng.choice([n_h * w0, (n_h + 0.5) * w0, n_h * w0 * (1 + 1e-12)])
        if k % 10 == 9:
            w_max = [0.0, 0.4 * w0, w0][(k // 10) % 3]      # limit at or below the fundamental: only the DC term (and w0 itself) of a periodic source
        yield {'circuit': cd, 'w_max': w_max, 'stratum': stratum, 'w0': w0}


def expected_frequencies(cd, w_max):
    """clusters: list of expected frequencies (distinct beyond W_RES)"""
    fs = []
    for c in cd['components']:
        f = circdesc.source_frequency(c)
        if f is not None:
            fs.append(f)
        if circdesc.is_periodic(c):
            w0 = c['args']['w']
            k = 0
            while k * w0 <= w_max:
                fs.append(k * w0)
                k += 1
    fs.sort()
    clusters = []
    for f in fs:
        if not clusters or f - clusters[-1] > W_RES:
            clusters.append(f)
    return clusters


def borderline(cd, w_max, f):
    """is f a harmonic within 4 ulp of w_max (may legitimately be in or out)?"""
    for c in cd['components']:
        if circdesc.is_periodic(c):
            w0 = c['args']['w']
            k = round(f / w0)
            if abs(k * w0 - f) <= W_RES and abs(k * w0 - w_max) <= 4 * np.spacing(w_max):
                return True
    return False


def custom_resolution_clause(ctx, prefix, cd, circ, w_max):
    """the same pipeline by hand with a NON-default frequency resolution: frequency_components(circuit, w_max, r) and
    transform(circuit, ws, r) must agree on what coincides - every source (harmonic) active on exactly one line"""
    from CircuitCalculator.Circuit.circuit import frequency_components, transform
    from CircuitCalculator.Network.NodalAnalysis.bias_point_analysis import nodal_analysis_bias_point_solver
    raw = []
    for c in cd['components']:
        f = circdesc.source_frequency(c)
        if f is not None:
            raw.append(f)
        if circdesc.is_periodic(c):
            k = 0
            while k * c['args']['w'] <= w_max:
                raw.append(k * c['args']['w']); k += 1
    raw = sorted(set(raw))
    for r in (1e-5, 0.25):
        if any(circdesc.is_periodic(c) and c['args']['w'] < 4 * r for c in cd['components']):
            ctx.count('custom_resolution_set_aside_fundamental_below_resolution')
            continue
        clusters = []
        for f in raw:
            if not clusters or f - clusters[-1][0] > r:
                clusters.append([f, f])
            else:
                clusters[-1][1] = f
        ambiguous = any(hi - lo > 0.9 * r for lo, hi in clusters) or any(b[0] - a[1] < 1.1 * r for a, b in zip(clusters, clusters[1:]))
        if ambiguous:
            ctx.count('custom_resolution_set_aside_ambiguous_spacing')
            continue
        ws = call(frequency_components, circ, w_max, r)
        if raised(ws):
            ctx.violation(f'{prefix}/custom-resolution/frequency-components-raised/{ws.key}', ws.text, {'w_resolution': r})
            continue
        ws = [float(x) for x in ws]
        exp = [lo for lo, hi in clusters]
        okl = True
        for f in exp:
            if not any(abs(w - f) <= 1e-9 * max(1.0, f) for w in ws) and not borderline(cd, w_max, f):
                ctx.violation(f'{prefix}/custom-resolution/frequency-list/missing', f'w_resolution={r!r}: expected line {f!r} not in {ws!r}', {'w_resolution': r})
                okl = False
        for w in ws:
            if not any(abs(w - f) <= 1e-9 * max(1.0, f) for f in exp) and not borderline(cd, w_max, w):
                ctx.violation(f'{prefix}/custom-resolution/frequency-list/unexpected', f'w_resolution={r!r}: line {w!r} analysed, expected lines {exp!r}', {'w_resolution': r})
                okl = False
        ctx.count('custom_resolution_lists_checked')
        if not okl:
            continue
        nets = call(transform, circ, ws, r)
        if raised(nets) or len(nets) != len(ws):
            ctx.violation(f'{prefix}/custom-resolution/transform-raised-or-wrong-length', getattr(nets, 'text', f'{len(nets)} networks for {len(ws)} frequencies'), {'w_resolution': r})
            continue
        rds = [netsolve.reference_from_ref(circdesc.ref_network(cd, w, r), {c['id']: c['ctor'] for c in cd['components']}) for w in ws]
        # natural scale of the whole analysis (a line on which a waveform has no harmonic is not judged relative to itself)
        S_phi = max([rd['s_phi'] for rd in rds if rd is not None] + [0.0])
        S_i = max([rd['s_i'] for rd in rds if rd is not None] + [0.0])
        # ... and never below what the source amplitudes themselves imply (w_max below the fundamental leaves only the DC line,
        # on which a zero-mean waveform contributes nothing but 1e-16)
        from ..ref import floatmna
        a_v = max([abs(c['args'].get('V', 0)) for c in cd['components'] if 'voltage_source' in c['ctor']] + [0.0])
        a_i = max([abs(c['args'].get('I', 0)) for c in cd['components'] if 'current_source' in c['ctor']] + [0.0])
        for rd in rds:
            if rd is not None:
                sc = floatmna.kappa_and_scales(rd['ref_net'])[1]
                S_phi = max(S_phi, a_v, a_i * sc['zmax'])
                S_i = max(S_i, a_i, a_v * sc['ymax'])
        for w, net, rd in zip(ws, nets, rds):
            if rd is None or rd['kappa'] > 1e7:
                ctx.count('custom_resolution_set_aside_ill_posed_or_conditioned')
                continue
            rd['s_phi'], rd['s_i'] = S_phi, S_i
            sol = call(nodal_analysis_bias_point_solver, net)
            if raised(sol):
                ctx.violation(f'{prefix}/custom-resolution/solver-raised/{sol.key}', sol.text, {'w_resolution': r, 'w': w})
                continue
            netsolve.compare(rd, {'phi': sol.get_potential, 'V': sol.get_voltage, 'I': sol.get_current}, ctx,
                             f'{prefix}/custom-resolution/{"fine" if r < 1e-3 else "coarse"}')
            ctx.count('custom_resolution_lines_compared')


def counted_once_clause(case, ctx, prefix):
    """every source (of non-zero amplitude) is switched on in the network of exactly one analysed frequency"""
    from CircuitCalculator.Circuit.circuit import frequency_components, transform
    cd = case['circuit']
    circ = call(circdesc.to_lib, cd)
    ws = call(frequency_components, circ, case['w_max']) if not raised(circ) else circ
    nets = call(transform, circ, ws) if not raised(ws) else ws
    if raised(nets):
        ctx.violation(f'{prefix}/chained-coincidence/raised/{nets.key}', nets.text, {})
        return
    ctx.count('circuits_judged'); ctx.count('stratum_chained-coincidence')
    ctx.evaluated(circdesc.signature(cd, ('chained-coincidence', len(ws))), True)
    for c in cd['components']:
        if not c['ctor'].startswith('ac_'):
            continue
        amp = c['args'].get('V', c['args'].get('I', 0))
        if amp == 0:
            continue
        on = []
        for w, net in zip(ws, nets):
            el = net[c['id']].element
            val = el.V if 'voltage' in c['ctor'] else el.I
            if np.isfinite(complex(val)) and abs(complex(val)) > 0:
                on.append(float(w))
        ctx.count('sources_counted')
        if len(on) != 1:
            ctx.violation(f'{prefix}/source-counted-on-{len(on)}-lines/chained-coincidence',
                          f'source {c["id"]!r} (w = {c["args"]["w"]!r}) is switched on in the networks of the analysed frequencies {on!r}; analysed: {[float(x) for x in ws]!r}', {})
            return


def waveform_clause(ctx, prefix, c, tds, w_max, key):
    """an ideal periodic voltage source reproduces its own waveform up to the truncation error of the retained harmonics"""
    from CircuitCalculator.SignalProcessing.periodic_functions import periodic_function
    a = c['args']
    Tp = 2 * math.pi / a['w']
    pf = periodic_function(a['wavetype'])(period=Tp, amplitude=a['V'], phase=a['phi'])
    M = 400
    tg = (np.arange(M) + 0.37) * Tp / M
    own = np.asarray(pf.time_function(tg), dtype=float).reshape(-1)
    yv = call(lambda: np.asarray(tds.get_voltage(c['id'])(tg), dtype=float).reshape(-1))
    if raised(yv):
        ctx.violation(f'{prefix}/time-domain/query-raised/{yv.key}', yv.text, {})
        return
    nmax = int(math.floor(w_max / a['w'] * (1 + 1e-12)))
    tail = sum(0.5 * abs(circdesc.periodic_phasor(a['wavetype'], a['V'], a['w'], a['phi'], n) or 0) ** 2 for n in range(nmax + 1, nmax + 400))
    tail += 0.5 * (4 * abs(a['V']) / math.pi) ** 2 / (nmax + 400)
    mse = float(np.mean((own - yv) ** 2))
    ctx.count('periodic_waveforms_checked')
    if mse > 3 * tail + 1e-9 * a['V'] ** 2 + 0.02 * a['V'] ** 2 / max(1, nmax):
        ctx.violation(f'{prefix}/time-domain/periodic-source-waveform{key}', f'{a["wavetype"]} source {c["id"]!r} (w0 = {a["w"]!r}): mean-square deviation from its own waveform {mse!r}, admissible truncation energy {tail!r} (harmonics <= {nmax})', {})


def slow_fundamental_clause(case, ctx, prefix):
    from CircuitCalculator.Circuit.solution import TimeDomainSolution
    cd, w_max = case['circuit'], case['w_max']
    circ = call(circdesc.to_lib, cd)
    if raised(circ):
        ctx.violation(f'{prefix}/valid-circuit-rejected/{circ.key}', circ.text, {})
        return
    rd = netsolve.reference_from_ref(circdesc.ref_network(cd, 0.0, W_RES), {c['id']: c['ctor'] for c in cd['components']})
    if rd is None or rd['kappa'] > 1e7:
        ctx.count('set_aside_ill_posed_or_conditioned')
        return
    tds = call(TimeDomainSolution, circ, w_max)
    if raised(tds):
        ctx.violation(f'{prefix}/time-domain/raised/{tds.key}', tds.text, {})
        return
    ctx.count('circuits_judged'); ctx.count('stratum_sub-resolution-fundamental')
    ctx.evaluated(circdesc.signature(cd, ('sub-resolution-fundamental',)), True)
    ctx.sample(case)
    for c in cd['components']:
        if c['ctor'] == 'periodic_voltage_source' and c['args']['wavetype'] != 'const' and c['args']['V'] != 0:
            waveform_clause(ctx, prefix, c, tds, w_max, '/sub-resolution-fundamental')


def judge(case, ctx, prefix='C09'):
    if case['stratum'] == 'chained-coincidence':
        return counted_once_clause(case, ctx, prefix)
    if case['stratum'] == 'sub-resolution-fundamental':
        return slow_fundamental_clause(case, ctx, prefix)
    from CircuitCalculator.Circuit.circuit import frequency_components
    from CircuitCalculator.Circuit.solution import TimeDomainSolution, FrequencyDomainSolution
    cd, w_max = case['circuit'], case['w_max']
    circ = call(circdesc.to_lib, cd)
    if raised(circ):
        ctx.violation(f'{prefix}/valid-circuit-rejected/{circ.key}', circ.text, {})
        return
    exp = expected_frequencies(cd, w_max)
    # exact reference at every expected frequency
    refs = {}
    for f in exp:
        rd = netsolve.reference_from_ref(circdesc.ref_network(cd, f, W_RES), {c['id']: c['ctor'] for c in cd['components']})
        if rd is None or rd['kappa'] > 1e7:
            ctx.count('set_aside_ill_posed_or_conditioned')
            return
        refs[f] = rd
    ws = call(frequency_components, circ, w_max)
    if raised(ws):
        ctx.violation(f'{prefix}/frequency-components-raised/{ws.key}', ws.text, {})
        return
    ws = [float(x) for x in ws]
    st = case['stratum']
    s_phi = sum(r['s_phi'] for r in refs.values())
    s_i = sum(r['s_i'] for r in refs.values())
    # never below what the source amplitudes themselves imply: with w_max below the fundamental only the DC line is left, on which
    # a zero-mean waveform contributes 1e-16 - a class that must not be judged relative to itself
    from ..ref import floatmna
    a_v = max([abs(c['args'].get('V', 0)) for c in cd['components'] if 'voltage_source' in c['ctor']] + [0.0])
    a_i = max([abs(c['args'].get('I', 0)) for c in cd['components'] if 'current_source' in c['ctor']] + [0.0])
    for r in refs.values():
        sc = floatmna.kappa_and_scales(r['ref_net'])[1]
        s_phi = max(s_phi, a_v, a_i * sc['zmax'])
        s_i = max(s_i, a_i, a_v * sc['ymax'])
    nontrivial = len(exp) >= 2 and any(not r['trivial'] for r in refs.values())
    ctx.evaluated(circdesc.signature(cd, (st, len(exp))), nontrivial)
    ctx.count('circuits_judged'); ctx.count('stratum_' + st)
    ctx.sample(case)
    # ---- (1) frequency list as clusters ------------------------------------------------------------------
    ok = True
    if ws != sorted(ws):
        ctx.violation(f'{prefix}/frequency-list/not-sorted', f'{ws!r}', {})
    for a, b in zip(ws, ws[1:]):
        if b - a <= W_RES:
            ctx.violation(f'{prefix}/frequency-list/coincident-frequencies-counted-twice/{st}', f'lines {a!r} and {b!r} coincide within the frequency resolution; list {ws!r}', {})
            ok = False
            break
    for f in exp:
        hits = [w for w in ws if abs(w - f) <= W_RES]
        if len(hits) == 0 and not (f > w_max and borderline(cd, w_max, f)):
            ctx.violation(f'{prefix}/frequency-list/missing/{"dc" if f == 0 else "line"}', f'expected frequency {f!r} is not analysed; list {ws!r}, w_max {w_max!r}', {})
            ok = False
    for w in ws:
        if not any(abs(w - f) <= W_RES for f in exp):
            if not any(circdesc.is_periodic(c) and abs(round(w / c['args']['w']) * c['args']['w'] - w_max) <= 4 * np.spacing(w_max) for c in cd['components']):
                ctx.violation(f'{prefix}/frequency-list/unexpected', f'frequency {w!r} is analysed but is neither a source frequency nor a harmonic <= w_max={w_max!r}', {})
                ok = False
    ctx.count('frequency_lists_checked')
    if not ok:
        return
    if st in ('near-coincidence', 'no-periodic', 'unrelated'):
        custom_resolution_clause(ctx, prefix, cd, circ, w_max)
    # harmonics within 4 ulp of w_max may legitimately be absent: judge the rest against what is actually analysed
    exp = [f for f in exp if any(abs(w - f) <= W_RES for w in ws)]
    comps = [c for c in cd['components'] if c['ctor'] != 'ground']
    nodes = circdesc.nodes({'components': comps})

    def ref_phasor(cls, ident, f):
        rep = refs[f]['rep']
        return rep['phi'][ident] if cls == 'phi' else rep[cls][ident]
    tol = max(r['tol'] for r in refs.values()) * 8
    # ---- (2) spectral lines ---------------------------------------------------------------------------------
    for one_sided in (True, False):
        fds = call(FrequencyDomainSolution, circuit=circ, w_max=w_max, one_sided=one_sided)
        side = 'one-sided' if one_sided else 'two-sided'
        if raised(fds):
            ctx.violation(f'{prefix}/spectrum/{side}/raised/{fds.key}', f'FrequencyDomainSolution(one_sided={one_sided}) raised {fds.text}', {})
            continue
        for cls, getter, idents, s in (('phi', fds.get_potential, nodes, s_phi), ('V', fds.get_voltage, [c['id'] for c in comps], s_phi),
                                       ('I', fds.get_current, [c['id'] for c in comps], s_i)):
            for ident in idents[:4]:
                r = call(getter, ident)
                if raised(r):
                    ctx.violation(f'{prefix}/spectrum/{side}/query-raised/{r.key}', r.text, {})
                    break
                wl, xl = np.asarray(r[0], dtype=float).reshape(-1), np.asarray(r[1]).reshape(-1)
                if wl.shape != xl.shape:
                    ctx.violation(f'{prefix}/spectrum/{side}/malformed', f'{wl.shape} frequencies for {xl.shape} values', {})
                    break
                # every line (w, X): real signal = sum Re[X e^{jwt}] (one-sided) or sum X e^{jwt} (two-sided)
                bad = False
                for f in exp:
                    Xref = ref_phasor(cls, ident, f)
                    if one_sided:
                        got = sum(complex(x) for w, x in zip(wl, xl) if abs(w - f) <= W_RES)
                        expv = Xref if f > W_RES else complex(Xref.real)
                        if f <= W_RES:
                            got = complex(got.real)
                    else:
                        pos = sum(complex(x) for w, x in zip(wl, xl) if abs(w - f) <= W_RES)
                        negv = sum(complex(x) for w, x in zip(wl, xl) if abs(w + f) <= W_RES and f > W_RES)
                        if f > W_RES:
                            # X+ e^{jwt} + X- e^{-jwt} must equal Re[Xref e^{jwt}]: X+ = Xref/2, X- = conj(Xref)/2
                            if abs(pos - Xref / 2) > tol * s or abs(negv - Xref.conjugate() / 2) > tol * s:
                                ctx.violation(f'{prefix}/spectrum/two-sided/line-mismatch', f'{cls}({ident!r}) at +-{f!r}: X+ = {pos!r}, X- = {negv!r}, exact peak phasor {Xref!r} (expected X/2 and conj(X)/2)', {})
                                bad = True
                                break
                            continue
                        got, expv = complex(pos.real), complex(Xref.real)
                    ctx.count('spectral_lines_compared')
                    if abs(got - expv) > tol * s:
                        ctx.violation(f'{prefix}/spectrum/{side}/{"dc-line" if f <= W_RES else "line"}-mismatch/{st}',
                                      f'{cls}({ident!r}) line at {f!r}: {got!r}, exact peak phasor {expv!r}', {'w_list': wl.tolist()})
                        bad = True
                        break
                if bad:
                    break
    # ---- (3) time functions ------------------------------------------------------------------------------------
    tds = call(TimeDomainSolution, circ, w_max)
    if raised(tds):
        ctx.violation(f'{prefix}/time-domain/raised/{tds.key}', tds.text, {})
        return
    wmin = min([f for f in exp if f > W_RES] or [1.0])
    T = 2 * math.pi / wmin
    t = np.linspace(0, 2 * T, 48) + 0.00731 * T
    cur = {}
    for cls, getter, idents, s in (('phi', tds.get_potential, nodes, s_phi), ('V', tds.get_voltage, [c['id'] for c in comps], s_phi),
                                   ('I', tds.get_current, [c['id'] for c in comps], s_i)):
        for ident in idents:
            f_ = call(getter, ident)
            y = call(f_, t) if not raised(f_) else f_
            if raised(y):
                ctx.violation(f'{prefix}/time-domain/query-raised/{y.key}', y.text, {})
                return
            y = np.asarray(y, dtype=float).reshape(-1)
            ref = np.zeros_like(t)
            for f in exp:
                X = ref_phasor(cls, ident, f)
                ref += abs(X) * np.cos(f * t + cmath.phase(X))
            ctx.count('time_functions_compared')
            e = float(np.max(np.abs(y - ref)))
            ctx.maxstat('max_time_function_error_over_scale', e / s if s else 0)
            if e > (tol * len(exp) + 1e-9) * s + W_RES * 2 * T * s * 0:
                ctx.violation(f'{prefix}/time-domain/mismatch/{cls}/{st}', f'{cls}({ident!r})(t) deviates from sum |X_k| cos(w_k t + arg X_k) by {e!r} (scale {s!r}); analysed {ws!r}', {})
                return
            if cls == 'I':
                cur[ident] = y
    for nd in nodes:
        r = np.zeros_like(t)
        for c in comps:
            if c['nodes'][0] == nd:
                r += cur[c['id']]
            if c['nodes'][1] == nd:
                r -= cur[c['id']]
        if np.max(np.abs(r)) > (tol * len(exp) + 1e-9) * s_i * 4:
            ctx.violation(f'{prefix}/time-domain/kcl', f'time functions of the currents do not balance at node {nd!r}: {float(np.max(np.abs(r)))!r}', {})
            break
    ctx.count('kcl_instants_checked', len(t))
    # additivity over sources: each source alone (others amplitude 0) must add up to the full time function
    srcs = [c for c in comps if c['ctor'].endswith('source')]
    probe = comps[ctx.rng.randrange(len(comps))]['id']
    full = np.asarray(call(call(tds.get_voltage, probe), t), dtype=float).reshape(-1)
    tot = np.zeros_like(t)
    good = True
    for s_ in srcs:
        cd1 = copy.deepcopy(cd)
        for c in cd1['components']:
            if c['ctor'].endswith('source') and c['id'] != s_['id']:
                for k in ('V', 'I'):
                    if k in c['args']:
                        c['args'][k] = 0.0
        circ1 = call(circdesc.to_lib, cd1)
        t1 = call(TimeDomainSolution, circ1, w_max) if not raised(circ1) else circ1
        y1 = call(call(t1.get_voltage, probe), t) if not raised(t1) else t1
        if raised(y1):
            good = False
            ctx.violation(f'{prefix}/time-domain/single-source-raised/{y1.key}', y1.text, {})
            break
        tot += np.asarray(y1, dtype=float).reshape(-1)
    if good:
        ctx.count('additivity_checked')
        if np.max(np.abs(tot - full)) > (tol * len(exp) * len(srcs) + 1e-9) * s_phi:
            ctx.violation(f'{prefix}/time-domain/not-additive-over-sources/{st}', f'V({probe!r})(t): sum of single-source time functions differs from the full one by {float(np.max(np.abs(tot - full)))!r}', {})
    # periodic voltage source reproduces its own waveform up to the truncation error
    for c in comps:
        if c['ctor'] == 'periodic_voltage_source':
            waveform_clause(ctx, prefix, c, tds, w_max, '')


def guards(m, tier):
    c = m['counters']
    r = []
    q = tier == 'quick'
    for k, need in (('circuits_judged', 200), ('stratum_rounding-coincidence', 30), ('stratum_exact-coincidence', 30), ('stratum_near-coincidence', 30), ('spectral_lines_compared', 3000),
                    ('time_functions_compared', 2000), ('additivity_checked', 150), ('periodic_waveforms_checked', 40),
                    ('custom_resolution_lines_compared', 300)):
        need = need if q else need * 12
        if c.get(k, 0) < need:
            r.append(f'{k} = {c.get(k, 0)} (<{need})')
    return r
