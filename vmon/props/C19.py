"""C19 - malformed circuits are rejected, not reinterpreted (fault enumeration)."""
from __future__ import annotations
import copy, math, random
import numpy as np
from ..gen import networks as G
from ..gen import circuits as GC
from .. import netdesc, circdesc, purity
from ..observe import call, raised

TITLE = "C19 every injected fault (duplicate id, detached reference, 2nd ground, negative value, unknown type, missing field, unknown id) raises"
LEVEL = 'fault_enumeration'
RULE = ("per valid base description ONE fault of each anchored class is injected at EVERY position: duplicate identifier (every ordered "
        "pair of positions) and detached reference node on Network; second ground (every insertion position) and duplicate id (every "
        "pair) on Circuit; every sign-checked parameter of every component constructor set negative (and to exactly 0, which must be "
        "accepted); load-element reference rules; every required field of every loader entry removed / unknown type at every list "
        "position (circuit loader, network loader, declarative schematic front end, waveform lookup); unknown element and node ids "
        "queried on all solution kinds. The unfaulted base must be accepted and stored unaltered. Non-trivial: every injected fault; "
        "distinct by (fault class, layer, position, kind).")
ASSUMPTIONS = [
    "a fault is 'rejected' when the call raises any exception and returns no value; the exception type is not demanded",
    "fault classes are scoped to the layer whose anchor names the rule (network invariants on Network, ground/id on Circuit, signs on component constructors, typed errors on loaders)",
]
N_BASE = {'quick': 168, 'thorough': 960}

SIGNED = {  # constructor -> (base kwargs, parameters that must not be negative)
    'resistor': ({'R': 10.0}, ['R']),
    'conductance': ({'G': 0.1}, ['G']),
    'capacitor': ({'C': 1e-6}, ['C']),
    'inductance': ({'L': 1e-3}, ['L']),
    'dc_voltage_source': ({'V': 5.0, 'R': 1.0}, ['R']),
    'ac_voltage_source': ({'V': 5.0, 'R': 1.0, 'w': 100.0, 'phi': 0.3}, ['R', 'w']),
    'periodic_voltage_source': ({'wavetype': 'rect', 'V': 5.0, 'w': 100.0, 'phi': 0.3, 'R': 1.0}, ['R', 'w']),
    'dc_current_source': ({'I': 0.1, 'G': 0.01}, ['G']),
    'ac_current_source': ({'I': 0.1, 'G': 0.01, 'w': 100.0, 'phi': 0.3}, ['G', 'w']),
    'periodic_current_source': ({'wavetype': 'tri', 'I': 0.1, 'w': 100.0, 'phi': 0.3, 'G': 0.01}, ['G', 'w']),
    'lamp': ({'P': 40.0, 'V_ref': 12.0}, ['P', 'V_ref']),
    'resistive_load': ({'P': 40.0, 'V_ref': 12.0}, ['P', 'V_ref']),
}


def generate(tier, seed, shard, nshards):
    rng = random.Random(f'C19/{seed}/{shard}')
    if shard == 0:
        yield {'kind': 'constructors'}
        yield {'kind': 'lookup'}
    for k in range(N_BASE[tier] // nshards):
        yield {'kind': 'network', 'net': G.random_network(rng, max_nodes=5, max_branches=7)}
        yield {'kind': 'circuit', 'circuit': GC.random_circuit(rng, max_nodes=5, max_comps=7, ground_prob=1.0 if k % 2 else 0.0)}
        yield {'kind': 'loader', 'seed': rng.getrandbits(32)}
        yield {'kind': 'queries', 'circuit': GC.random_circuit(rng, max_nodes=4, max_comps=6, n_reactive=(1, 2), sources=['dc_voltage_source', 'dc_current_source'], lossy=0.0,
                                                             passives=['resistor'], id_pool=['R1', 'R2', 'R3', 'C1', 'C2', 'L1', 'L2', 'Vs', 'Is', 'Vq', 'Iq', 'A', 'B', 'Z'],
                                                             node_pool=['0', '1', '2', '3', 'a', 'b']),
               'unknown': rng.choice(['nope', '', 'R1 ', 'r1', '999', 'gnd?'])}
        if k % 4 == 0:
            yield {'kind': 'schematic', 'seed': rng.getrandbits(32)}
        if k % 8 == 3:
            # the same queries against a circuit WITHOUT any source (valid, every quantity is zero): unknown identifiers still are unknown
            base = GC.random_circuit(rng, max_nodes=4, max_comps=6, n_reactive=(1, 2), sources=['dc_voltage_source'], lossy=0.0, passives=['resistor'],
                                     id_pool=['R1', 'R2', 'R3', 'C1', 'C2', 'L1', 'L2', 'Vs', 'A', 'B', 'Z'], node_pool=['0', '1', '2', '3', 'a', 'b'], ground_prob=1.0)
            base = {**base, 'components': [c for c in base['components'] if not c['ctor'].endswith('source')]}
            if sum(1 for c in base['components'] if c['ctor'] != 'ground') >= 2:
                yield {'kind': 'queries', 'circuit': base, 'unknown': rng.choice(['nope', '', 'R9', 'r1', '999', '7']), 'source_free': True}


def must_raise(ctx, prefix, key, what, fn, *a, **k):
    r = call(fn, *a, **k)
    ctx.count('faults_injected')
    ctx.count('faults_' + key.split('/')[0])
    if not raised(r):
        ctx.violation(f'{prefix}/accepted/{key}', f'{what} was accepted and returned {repr(r)[:200]}', {})
        return False
    return True


def must_accept(ctx, prefix, key, what, fn, *a, **k):
    r = call(fn, *a, **k)
    ctx.count('valid_descriptions_checked')
    if raised(r):
        ctx.violation(f'{prefix}/valid-rejected/{key}', f'{what} was rejected: {r.text}', {})
        return None
    return r


def judge(case, ctx, prefix='C19'):
    return globals()['judge_' + case['kind']](case, ctx, prefix)


def judge_network(case, ctx, prefix):
    from CircuitCalculator.Network.network import Network, Branch
    desc = case['net']
    brs = [Branch(b['n1'], b['n2'], netdesc.lib_element(b)) for b in desc['branches']]
    net = must_accept(ctx, prefix, 'network', 'a valid network', Network, list(brs), desc['ref'])
    if net is None:
        return
    if net.branches != brs or net.node_zero_label != desc['ref'] or [b.id for b in net.branches] != [b['id'] for b in desc['branches']]:
        ctx.violation(f'{prefix}/stored-altered/network', 'Network stores something else than it was given', {})
    n = len(brs)
    for i in range(n):
        for j in range(n):
            if i == j:
                continue
            dup = list(brs)
            clone = copy.deepcopy(desc['branches'][j]); clone['id'] = desc['branches'][i]['id']
            dup[j] = Branch(brs[j].node1, brs[j].node2, netdesc.lib_element(clone))
            must_raise(ctx, prefix, 'duplicate-id/network', f'a network with id {clone["id"]!r} at positions {i} and {j}', Network, dup, desc['ref'])
            ctx.evaluated(repr(('dup-net', i, j, n)), True)
    for lab in ['', 'GROUND', desc['ref'] + ' ', desc['ref'].upper() + '_', '0' if '0' not in netdesc.nodes(desc) else '00']:
        if lab in netdesc.nodes(desc):
            continue
        must_raise(ctx, prefix, 'detached-reference/network', f'a network whose reference node {lab!r} touches no element', Network, list(brs), lab)
        ctx.evaluated(repr(('detached', lab == '', n)), True)
    # the same rule for the smallest network there is: one branch, reference node elsewhere
    for b in brs[:2]:
        lab = next(x for x in ('ref', 'GROUND', '00') if x not in (b.node1, b.node2))
        must_raise(ctx, prefix, 'detached-reference/network', f'a one-branch network {b.node1!r}-{b.node2!r} whose reference node {lab!r} touches no element', Network, [b], lab)
    ctx.sample({'network_fault_base': desc})


def judge_circuit(case, ctx, prefix):
    from CircuitCalculator.Circuit.circuit import Circuit
    cd = case['circuit']
    comps = [circdesc.lib_component(c) for c in cd['components']]
    circ = must_accept(ctx, prefix, 'circuit', 'a valid circuit', Circuit, list(comps))
    if circ is None:
        return
    if circ.components != comps:
        ctx.violation(f'{prefix}/stored-altered/circuit', 'Circuit stores other components than it was given', {})
    has_ground = any(c['ctor'] == 'ground' for c in cd['components'])
    n = len(comps)
    nodes = circdesc.nodes(cd)
    # a second ground at every position (if there is none yet: two grounds at every pair of positions)
    from CircuitCalculator.Circuit import components as ccp
    for pos in range(n + 1):
        for node in (nodes[0], nodes[-1]):
            extra = [ccp.ground(id='gnd#2', nodes=(node,))]
            if not has_ground:
                extra.append(ccp.ground(id='gnd#1', nodes=(nodes[0],)))
            lst = list(comps)
            lst[pos:pos] = extra[:1]
            if not has_ground:
                lst.insert(0 if pos else n, extra[1])
            must_raise(ctx, prefix, 'second-ground/circuit', f'a circuit with two ground components (second at position {pos})', Circuit, lst)
            ctx.evaluated(repr(('ground2', pos, n, has_ground)), True)
    for i in range(n):
        for j in range(n):
            if i == j or cd['components'][j]['ctor'] == 'ground' and cd['components'][i]['ctor'] == 'ground':
                continue
            clone = copy.deepcopy(cd['components'][j]); clone['id'] = cd['components'][i]['id']
            lst = list(comps); lst[j] = circdesc.lib_component(clone)
            must_raise(ctx, prefix, 'duplicate-id/circuit', f'a circuit with id {clone["id"]!r} at positions {i} and {j}', Circuit, lst)
            ctx.evaluated(repr(('dup-circ', i, j, n)), True)
    # a component of an unknown type (a typo in a hand-made Component) at every position: rejected when the circuit is built, or at
    # the latest by every analysis - never analysed as if the component were not there
    from CircuitCalculator.Circuit.components import Component
    from CircuitCalculator.Circuit import solution as S
    for pos in range(n + 1):
        for bad_type in ('resistorr', 'Resistor', ''):
            lst = list(comps)
            lst.insert(pos, Component(type=bad_type, id='X#1', nodes=(nodes[0], nodes[-1]), value={'R': 5.0}))

            def build_and_analyse(lst=lst):
                c = Circuit(lst)
                return S.DCSolution(c), S.ComplexSolution(circuit=c, w=10.0), S.TimeDomainSolution(c, 30.0)
            must_raise(ctx, prefix, 'unknown-type/component', f'a circuit with a component of unknown type {bad_type!r} at position {pos}', build_and_analyse)
            ctx.evaluated(repr(('unknown-type-component', pos, n, bad_type)), True)
    # a ground symbol on a node that touches no element, at every position: rejected when the circuit is built or, at the latest, by
    # every analysis
    if not has_ground:
        for pos in range(n + 1):
            lst = list(comps)
            lst.insert(pos, ccp.ground(id='gnd#9', nodes=('no such node',)))

            def build_and_analyse_g(lst=lst):
                c = Circuit(lst)
                return S.DCSolution(c), S.ComplexSolution(circuit=c, w=10.0), S.TimeDomainSolution(c, 30.0)
            must_raise(ctx, prefix, 'detached-reference/circuit', f'a circuit whose ground symbol (position {pos}) sits on a node that touches no element', build_and_analyse_g)
            ctx.evaluated(repr(('detached-ground-circuit', pos, n)), True)
    ctx.sample({'circuit_fault_base': cd})


def judge_constructors(case, ctx, prefix):
    from CircuitCalculator.Circuit import components as ccp
    from CircuitCalculator.Network import elements as elm
    for ctor, (base, signed) in SIGNED.items():
        f = getattr(ccp, ctor)
        ok = must_accept(ctx, prefix, f'constructor/{ctor}', f'{ctor}(**{base!r})', f, id='X', nodes=('a', 'b'), **base)
        if ok is not None:
            if ok.id != 'X' or tuple(ok.nodes) != ('a', 'b') or any(ok.value.get(k) != v for k, v in base.items()):
                ctx.violation(f'{prefix}/stored-altered/{ctor}', f'{ctor}(**{base!r}) stored {ok!r}', {})
        for p in signed:
            for bad in (-1.0, -1e-9, -math.inf, -5):
                kw = dict(base); kw[p] = bad
                must_raise(ctx, prefix, f'negative-value/{ctor}/{p}', f'{ctor} with {p}={bad!r}', f, id='X', nodes=('a', 'b'), **kw)
                ctx.evaluated(repr(('neg', ctor, p, bad)), True)
            kw = dict(base); kw[p] = 0.0
            if not (ctor in ('periodic_voltage_source', 'periodic_current_source') and p == 'w'):
                must_accept(ctx, prefix, f'boundary-zero/{ctor}/{p}', f'{ctor} with {p}=0', f, id='X', nodes=('a', 'b'), **kw)
    # load element reference-value rules (network level)
    for what, kw in (('no reference value', {}), ('both reference values', {'V_ref': 10.0, 'I_ref': 1.0}), ('zero reference voltage', {'V_ref': 0.0}),
                     ('zero reference current', {'I_ref': 0.0}), ('negative reference voltage only', {'V_ref': -5.0}), ('negative reference current only', {'I_ref': -5.0})):
        must_raise(ctx, prefix, f'load-reference/{what.replace(" ", "-")}', f'load with {what}', elm.load, 'L', 10.0, **kw)
        ctx.evaluated(repr(('load', what)), True)
    must_accept(ctx, prefix, 'load/V_ref', 'load(P=10, V_ref=5)', elm.load, 'L', 10.0, V_ref=5.0)
    must_accept(ctx, prefix, 'load/I_ref', 'load(P=10, I_ref=2)', elm.load, 'L', 10.0, I_ref=2.0)
    ctx.sample({'constructors': sorted(SIGNED)})


def judge_lookup(case, ctx, prefix):
    from CircuitCalculator.SignalProcessing.periodic_functions import periodic_function, fourier_series
    from CircuitCalculator.Circuit import components as ccp
    from CircuitCalculator.Circuit.circuit import Circuit, transform_circuit
    for nm in ['nope', '', 'RECT', 'square', 'cosine', None, 5]:
        must_raise(ctx, prefix, 'unknown-waveform/lookup', f'periodic_function({nm!r})', periodic_function, nm)
        ctx.evaluated(repr(('wave', nm)), True)
        if isinstance(nm, str):
            # the description may be rejected when the source is constructed (what the statement asks for); a tree that constructs it
            # must at least refuse EVERY analysis of it - including the transient one, which has no use for the waveform itself
            from CircuitCalculator.Circuit import solution as S
            c = call(ccp.periodic_voltage_source, id='V', nodes=('a', '0'), wavetype=nm, V=1.0, w=10.0)
            ctx.count('faults_injected'); ctx.count('faults_unknown-waveform')
            if raised(c):
                ctx.count('unknown_waveform_rejected_at_construction')
            else:
                circ = Circuit([c, ccp.resistor('R', ('a', 'b'), 5.0), ccp.capacitor('C', ('b', '0'), 1e-3), ccp.ground(nodes=('0',))])
                for wq in (10.0, 25.0, 7.0, 0.0):           # at a harmonic, between harmonics, at DC
                    must_raise(ctx, prefix, 'unknown-waveform/analysis', f'transform_circuit at w={wq} with a periodic source of unknown wave type {nm!r}', transform_circuit, circ, wq)
                    must_raise(ctx, prefix, 'unknown-waveform/analysis', f'ComplexSolution at w={wq} with a periodic source of unknown wave type {nm!r}', S.ComplexSolution, circuit=circ, w=wq)
                must_raise(ctx, prefix, 'unknown-waveform/analysis', f'TimeDomainSolution with a periodic source of unknown wave type {nm!r}', S.TimeDomainSolution, circ, 35.0)
                tt = np.linspace(0, 1e-2, 21)
                must_raise(ctx, prefix, 'unknown-waveform/analysis/transient', f'TransientSolution with a periodic source of unknown wave type {nm!r}', S.TransientSolution, circuit=circ, tin=tt, input={'V': lambda t: np.ones_like(t)})
            ci = call(ccp.periodic_current_source, id='I', nodes=('a', '0'), wavetype=nm, I=1.0, w=10.0, phi=0.0)
            ctx.count('faults_injected'); ctx.count('faults_unknown-waveform')
            if raised(ci):
                ctx.count('unknown_waveform_rejected_at_construction')
            else:
                circ_i = Circuit([ci, ccp.resistor('R', ('a', '0'), 5.0)])
                for wq in (10.0, 25.0):
                    must_raise(ctx, prefix, 'unknown-waveform/analysis', f'transform_circuit at w={wq} with a periodic current source of unknown wave type {nm!r}', transform_circuit, circ_i, wq)

    class Alien:
        period, amplitude, phase, offset = 1.0, 1.0, 0.0, 0.0
    must_raise(ctx, prefix, 'unknown-waveform/fourier_series', 'fourier_series of an unknown waveform object', fourier_series, Alien())


LOADER_VALID = [
    {'type': 'resistor', 'id': 'R1', 'nodes': ['a', 'b'], 'value': {'R': 10.0}},
    {'type': 'conductance', 'id': 'G1', 'nodes': ['a', '0'], 'value': {'G': 0.5}},
    {'type': 'impedance', 'id': 'Z1', 'nodes': ['b', '0'], 'value': {'Z': 3 + 4j}},
    {'type': 'admittance', 'id': 'Y1', 'nodes': ['b', '0'], 'value': {'Y': 0.1 - 0.2j}},
    {'type': 'dc_voltage_source', 'id': 'V1', 'nodes': ['a', '0'], 'value': {'V': 5.0}},
    {'type': 'ac_voltage_source', 'id': 'V2', 'nodes': ['a', 'c'], 'value': {'V': 5.0, 'w': 10.0, 'phi': 0.1}},
    {'type': 'complex_voltage_source', 'id': 'V3', 'nodes': ['c', '0'], 'value': {'V': 1 + 1j}},
    {'type': 'dc_current_source', 'id': 'I1', 'nodes': ['a', '0'], 'value': {'I': 0.5}},
    {'type': 'ac_current_source', 'id': 'I2', 'nodes': ['b', '0'], 'value': {'I': 0.5, 'w': 3.0, 'phi': 0.0}},
    {'type': 'complex_current_source', 'id': 'I3', 'nodes': ['c', 'b'], 'value': {'I': 0.2j}},
]
NET_VALID = [
    {'type': 'resistor', 'id': 'R1', 'N1': '0', 'N2': '1', 'R': 10.0},
    {'type': 'conductor', 'id': 'G1', 'N1': '1', 'N2': '2', 'G': 0.5},
    {'type': 'impedance', 'id': 'Z1', 'N1': '2', 'N2': '0', 'Z': {'real': 1.0, 'imag': 2.0}},
    {'type': 'voltage_source', 'id': 'V1', 'N1': '1', 'N2': '0', 'V': {'abs': 1.0, 'phase': 0.5}},
    {'type': 'current_source', 'id': 'I1', 'N1': '2', 'N2': '0', 'I': {'real': 0.1, 'imag': 0.0}},
    {'type': 'real_voltage_source', 'id': 'V2', 'N1': '2', 'N2': '1', 'V': 2.0, 'Z': 1.0},
    {'type': 'open_circuit', 'id': 'O1', 'N1': '1', 'N2': '0'},
    {'type': 'linear_voltage_source', 'id': 'V3', 'N1': '3', 'N2': '0', 'V': {'real': 3.0, 'imag': 1.0}, 'Z': {'real': 2.0, 'imag': 0.5}},
    {'type': 'linear_current_source', 'id': 'I2', 'N1': '3', 'N2': '1', 'I': {'abs': 0.2, 'phase': 0.3}, 'Y': {'real': 0.1, 'imag': 0.0}},
    {'type': 'admittance', 'id': 'Y1', 'N1': '3', 'N2': '0', 'Y': {'real': 0.5, 'imag': -0.1}},
    {'type': 'real_current_source', 'id': 'I3', 'N1': '0', 'N2': '2', 'I': 0.3},
    {'type': 'short_circuit', 'id': 'S1', 'N1': '3', 'N2': '4'},
]


def judge_loader(case, ctx, prefix):
    from CircuitCalculator.Circuit import dump_load as cdl
    from CircuitCalculator.Network import loaders
    rng = random.Random(case['seed'])
    comps = rng.sample(LOADER_VALID, rng.randint(2, 6))
    doc = {'components': copy.deepcopy(comps)}
    ok = must_accept(ctx, prefix, 'circuit-loader', 'a valid circuit description', cdl.undictify_circuit, copy.deepcopy(doc))
    for pos in range(len(comps)):
        for field in ('id', 'type', 'value', 'nodes'):
            d = copy.deepcopy(doc); del d['components'][pos][field]
            must_raise(ctx, prefix, f'missing-field/circuit-loader/{field}', f'component {pos} without {field!r}', cdl.undictify_circuit, d)
            ctx.evaluated(repr(('miss-c', field, pos, len(comps))), True)
        d = copy.deepcopy(doc); d['components'][pos]['type'] = rng.choice(['nope', '', 'Resistor', 'lamp ', 'periodic'])
        must_raise(ctx, prefix, 'unknown-type/circuit-loader', f'component {pos} of unknown type {d["components"][pos]["type"]!r}', cdl.undictify_circuit, d)
        d = copy.deepcopy(doc)
        k0 = next(iter(d['components'][pos]['value']))
        d['components'][pos]['value']['bogus'] = d['components'][pos]['value'].pop(k0)
        must_raise(ctx, prefix, 'wrong-value-key/circuit-loader', f'component {pos} with value key {k0!r} renamed', cdl.undictify_circuit, d)
        d = copy.deepcopy(doc)
        for k_, v_ in list(d['components'][pos]['value'].items()):
            if k_ in ('R', 'G', 'w') and isinstance(v_, float):
                d['components'][pos]['value'][k_] = -abs(v_) - 1.0
                must_raise(ctx, prefix, f'negative-value/circuit-loader/{k_}', f'component {pos} with {k_} negative', cdl.undictify_circuit, d)
                break
        ctx.evaluated(repr(('type-c', pos, len(comps))), True)
    d = copy.deepcopy(doc); d['components'].append(copy.deepcopy(d['components'][0]))
    must_raise(ctx, prefix, 'duplicate-id/circuit-loader', 'description with the same component twice', cdl.undictify_circuit, d)
    must_raise(ctx, prefix, 'missing-field/circuit-loader/components', 'document without a component list', cdl.undictify_circuit, {})
    # network loader
    ents = [NET_VALID[0]] + rng.sample(NET_VALID[1:], rng.randint(2, 8))
    must_accept(ctx, prefix, 'network-loader', 'a valid network description', loaders.load_network, copy.deepcopy(ents))
    for pos in range(len(ents)):
        optional = {'real_voltage_source': ['Z'], 'real_current_source': ['Y']}.get(ents[pos]['type'], [])
        for field in [f for f in ents[pos] if f != 'type' and f not in optional] + ['type']:
            e = copy.deepcopy(ents); del e[pos][field]
            must_raise(ctx, prefix, f'missing-field/network-loader/{field if field in ("N1", "N2", "id", "type") else "value"}', f'entry {pos} without {field!r}', loaders.load_network, e)
            ctx.evaluated(repr(('miss-n', field, pos, len(ents))), True)
        e = copy.deepcopy(ents); e[pos]['type'] = rng.choice(['nope', '', 'Resistor', 'capacitor'])
        must_raise(ctx, prefix, 'unknown-type/network-loader', f'entry {pos} of unknown type {e[pos]["type"]!r}', loaders.load_network, e)
        if pos:
            e = copy.deepcopy(ents); e[pos]['id'] = e[0]['id']
            must_raise(ctx, prefix, 'duplicate-id/network-loader', f'entries 0 and {pos} share an id', loaders.load_network, e)
    ctx.sample({'loader_fault_bases': {'circuit': [c['type'] for c in comps], 'network': [e['type'] for e in ents]}})


def judge_queries(case, ctx, prefix):
    from CircuitCalculator.Circuit import solution as S
    from CircuitCalculator.Circuit.circuit import transform_circuit
    from CircuitCalculator.Network.NodalAnalysis.bias_point_analysis import nodal_analysis_bias_point_solver
    from ..oracles import dynamics
    cd, unk = case['circuit'], case['unknown']
    ids = {c['id'] for c in cd['components']} | set(circdesc.nodes(cd))
    if unk in ids:
        return
    circ = call(circdesc.to_lib, cd)
    if raised(circ):
        return
    if case.get('source_free'):
        ctx.count('query_bases_without_sources')
    sols = {}
    sols['network'] = call(lambda: nodal_analysis_bias_point_solver(transform_circuit(circ, 0.0)))
    sols['dc'] = call(S.DCSolution, circ)
    sols['complex'] = call(S.ComplexSolution, circuit=circ, w=10.0)
    sols['time-domain'] = call(S.TimeDomainSolution, circ, 50.0)
    sols['frequency-domain'] = call(S.FrequencyDomainSolution, circuit=circ, w_max=50.0)
    if dynamics.non_degenerate(cd)[0]:
        tin = np.linspace(0, 1e-3, 20)
        inputs = {c['id']: (lambda t: np.ones_like(t)) for c in cd['components'] if c['ctor'].endswith('source')}
        sols['transient'] = call(S.TransientSolution, circuit=circ, tin=tin, input=inputs)
    t = np.linspace(0, 1, 5)
    for kind, sol in sols.items():
        if raised(sol):
            ctx.count('solution_kind_unavailable_' + kind)
            continue
        for q in ('get_voltage', 'get_current', 'get_power', 'get_potential'):
            def query():
                return getattr(sol, q)(unk)
            r0 = call(query)
            if not raised(r0) and callable(r0):
                # the query answered with a function object: a value was returned for an unknown identifier; whether or not that
                # function fails later when evaluated, the query itself did not reject the identifier
                r1 = call(r0, t)
                ctx.count('faults_injected'); ctx.count('faults_unknown-id')
                ctx.violation(f'{prefix}/accepted/unknown-id/{kind}/{q}/' + ('error-deferred-until-evaluation' if raised(r1) else 'function-returned'),
                              f'{kind} solution {q}({unk!r}) returned the function {r0!r}' + (f'; the error only surfaces when it is evaluated: {r1.text[:120]}' if raised(r1) else ''), {})
            else:
                must_raise(ctx, prefix, f'unknown-id/{kind}/{q}', f'{kind} solution {q}({unk!r})', query)
            ctx.evaluated(repr(('query', kind, q, unk)), True)
        # known ids must still answer
        some = next(c['id'] for c in cd['components'] if c['ctor'] != 'ground')
        r = call(lambda: sol.get_voltage(some))
        if raised(r):
            ctx.count('known_id_query_failed_' + kind)
    ctx.sample({'query_base': cd, 'unknown': unk})


def judge_schematic(case, ctx, prefix):
    from CircuitCalculator.SimpleSimulation.schematic import create_schematic
    rng = random.Random(case['seed'])
    base = {'unit': 3, 'elements': [
        {'type': 'voltage_source', 'name': 'Vs', 'V': 5.0, 'direction': 'up'},
        {'type': 'resistor', 'name': 'R1', 'R': 10.0, 'direction': 'right'},
        {'type': 'resistor', 'name': 'R2', 'R': 20.0, 'direction': 'down'},
        {'type': 'line', 'direction': 'left'},
        {'type': 'ground'},
    ], 'solution': {'type': 'dc', 'voltages': [{'name': 'R1'}], 'currents': [{'name': 'R2'}]}}
    must_accept(ctx, prefix, 'schematic', 'a valid declarative schematic', create_schematic, copy.deepcopy(base))
    n = len(base['elements'])
    for pos in range(n):
        d = copy.deepcopy(base); d['elements'][pos]['type'] = rng.choice(['nope', 'Resistor', '', 'transistor'])
        must_raise(ctx, prefix, 'unknown-type/schematic', f'element {pos} of unknown type {d["elements"][pos]["type"]!r}', create_schematic, d)
        d = copy.deepcopy(base); del d['elements'][pos]['type']
        must_raise(ctx, prefix, 'missing-field/schematic/type', f'element {pos} without a type', create_schematic, d)
        for field in [f for f in base['elements'][pos] if f in ('V', 'R', 'name') and base['elements'][pos]['type'] != 'line']:
            d = copy.deepcopy(base); del d['elements'][pos][field]
            must_raise(ctx, prefix, f'missing-field/schematic/{field}', f'element {pos} without {field!r}', create_schematic, d)
        ctx.evaluated(repr(('schem', pos)), True)
    # the same with a NAMED ground symbol (an unnamed component must be rejected because its name is missing, not because its empty
    # identifier happens to collide with another empty one)
    base_g = copy.deepcopy(base); base_g['elements'][-1]['name'] = 'gnd'
    must_accept(ctx, prefix, 'schematic', 'a valid declarative schematic with a named ground', create_schematic, copy.deepcopy(base_g))
    for pos in range(3):
        d = copy.deepcopy(base_g); del d['elements'][pos]['name']
        must_raise(ctx, prefix, 'missing-field/schematic/name', f'element {pos} without a name (named ground)', create_schematic, d)
    for pos in (1, 2):
        d = copy.deepcopy(base); d['elements'][pos]['R'] = -5.0
        must_raise(ctx, prefix, 'negative-value/schematic/R', f'element {pos} with negative R', create_schematic, d)
    d = copy.deepcopy(base); d['elements'].append({'type': 'ground'})
    must_raise(ctx, prefix, 'second-ground/schematic', 'schematic with two ground symbols', create_schematic, d)
    # the same faults when an analysis is asked for but no annotation is requested (keys absent, or empty lists)
    for sol in ({'type': 'dc'}, {'type': 'dc', 'voltages': [], 'currents': []}, {'type': 'complex'}):
        ok = copy.deepcopy(base); ok['solution'] = copy.deepcopy(sol)
        must_accept(ctx, prefix, 'schematic', f'a valid declarative schematic with solution {sol!r}', create_schematic, ok)
        d = copy.deepcopy(ok); d['elements'][1]['R'] = -5.0
        must_raise(ctx, prefix, 'negative-value/schematic/R', f'negative R with solution {sol!r}', create_schematic, d)
        d = copy.deepcopy(ok); d['elements'].append({'type': 'ground'})
        must_raise(ctx, prefix, 'second-ground/schematic', f'two ground symbols with solution {sol!r}', create_schematic, d)
        d = copy.deepcopy(ok); d['elements'][2]['name'] = 'R1'
        must_raise(ctx, prefix, 'duplicate-id/schematic', f'two elements named R1 with solution {sol!r}', create_schematic, d)
    # ---- a requested annotation of an unknown element / node: rejected, or left out - never drawn with a value
    from CircuitCalculator.SimpleCircuit import Elements as elm
    known = {'voltages': ['R1', 'R2'], 'currents': ['R2', 'Vs'], 'powers': ['R1'], 'potentials': []}
    for section in ('voltages', 'currents', 'powers', 'potentials'):
        for pos in range(len(known[section]) + 1):
            unk = rng.choice(['Rx', 'r1', 'R1 ', 'R10', 'N0'])      # not '0' (the ground symbol's default name) and not '' (wires)
            names = list(known[section]); names.insert(pos, unk)
            d = copy.deepcopy(base); d['solution'] = {'type': rng.choice(['dc', 'complex']), section: [{'name': x} for x in names]}
            ctx.count('faults_injected'); ctx.count('faults_unknown-id')
            r = call(create_schematic, d)
            if raised(r):
                ctx.count('unknown_annotation_rejected')
                continue
            got = [e for e in r.elements if isinstance(e, (elm.VoltageLabel, elm.CurrentLabel, elm.PowerLabel, elm.LabelNode))]
            ctx.count('unknown_annotation_left_out')
            if len(got) > len(known[section]):
                ctx.violation(f'{prefix}/accepted/unknown-id/schematic-annotation/{section}', f'{section} annotation of the unknown name {unk!r} at position {pos} was drawn: {len(got)} labels for {len(known[section])} known names', {})
    # ---- a symbol that is not one of the library's (plain schemdraw part) in a drawing: the translation must refuse it, wherever it sits
    import schemdraw.elements as raw
    from CircuitCalculator.SimpleCircuit.DiagramTranslator import circuit_translator
    for pos in range(4):
        def build():
            d = elm.Schematic(unit=3)
            parts = [lambda: elm.VoltageSource(V=5.0, name='Vs').up(), lambda: elm.Resistor(R=10.0, name='R1').right(), lambda: elm.Resistor(R=20.0, name='R2').down(), lambda: elm.Line().left()]
            foreign = rng.choice([lambda: raw.Resistor().right(), lambda: raw.Capacitor().down(), lambda: raw.SourceV().up(), lambda: raw.Diode().right()])
            parts.insert(pos, foreign)
            for mk in parts:
                d += mk()
            d += elm.Ground()
            return circuit_translator(d)
        must_raise(ctx, prefix, 'unknown-type/drawing', f'a plain schemdraw part as symbol {pos} of a drawing', build)


def guards(m, tier):
    c = m['counters']
    r = []
    q = tier == 'quick'
    for k, need in (('faults_injected', 8000), ('faults_duplicate-id', 2000), ('faults_second-ground', 300), ('faults_negative-value', 150),
                    ('faults_missing-field', 600), ('faults_unknown-id', 400), ('faults_unknown-type', 200), ('faults_detached-reference', 100)):
        need = need if q else need * 8
        if c.get(k, 0) < need:
            r.append(f'{k} = {c.get(k, 0)} (<{need})')
    return r
