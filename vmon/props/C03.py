"""C03 - results are independent of names, listing order, reference node, terminal order."""
from __future__ import annotations
import copy, math, random
import numpy as np
from ..gen import networks as G
from ..gen import circuits as GC
from .. import netdesc, circdesc
from ..oracles import netsolve, dynamics
from ..ref import floatmna
from ..observe import call, raised
from . import C10, C12

TITLE = "C03 renaming, list permutation, terminal reversal (source negated) and re-referencing never change a physical result"
LEVEL = 'exploration'
RULE = ("base cases from the generators of C01 (network solutions, port impedances), C02 (ComplexSolution), C10 (state-space transfer "
        "per named source/output) and C12 (transient waveforms); per base case 2-3 random transforms: bijective renaming of nodes and "
        "elements drawn from hostile pools (new sort order differs, interleaving current sources, voltage sources, inductors, passives), "
        "permutation of the element list, reversal of a random subset of elements (terminals swapped, source value negated), new "
        "reference node. Two library executions are related (no external truth). Non-trivial: the transform changes the relative sort "
        "order of >=2 labels or reverses >=1 element; distinct by (base signature, transform class).")
ASSUMPTIONS = [
    "pair monitor: original and transformed execution of the real code; the exact tableau only decides well-posedness and sizes tolerances",
    "potentials are compared as differences to an anchor node (a new reference shifts all potentials by one constant)",
    "state-space behaviour is addressed by NAME through the model's published `sources` list",
]
N = {'quick': {'net': 1800, 'circ': 1000, 'ssm': 520, 'transient': 240}, 'thorough': {'net': 16000, 'circ': 9000, 'ssm': 4000, 'transient': 1800}}
W_RES = 1e-3


def make_transform(rng, node_labels, ids, node_pool, id_pool, allow_reverse=True):
    new_nodes = rng.sample(node_pool, len(node_labels))
    new_ids = rng.sample(id_pool, len(ids))
    perm = list(range(len(ids)))
    rng.shuffle(perm)
    rev = [i for i in ids if allow_reverse and rng.random() < 0.35]
    return {'nodes': dict(zip(node_labels, new_nodes)), 'ids': dict(zip(ids, new_ids)), 'perm': perm, 'reverse': rev,
            'ref_choice': rng.random()}


def order_changed(old, new):
    so, sn = sorted(old), sorted(new, key=lambda x: x)
    ro = [sorted(old).index(x) for x in old]
    rn = [sorted(new).index(x) for x in new]
    return ro != rn


def neg(v):
    if isinstance(v, (list, tuple)):
        return [-v[0], -v[1]]
    return -v


def transform_net(desc, T):
    brs = []
    for b in desc['branches']:
        nb = copy.deepcopy(b)
        nb['id'] = T['ids'][b['id']]
        nb['n1'], nb['n2'] = T['nodes'][b['n1']], T['nodes'][b['n2']]
        if b['id'] in T['reverse']:
            nb['n1'], nb['n2'] = nb['n2'], nb['n1']
            if nb['ctor'] == 'voltage_source':
                nb['V'] = neg(nb['V'])
            elif nb['ctor'] == 'current_source':
                nb['I'] = neg(nb['I'])
        brs.append(nb)
    brs = [brs[k] for k in T['perm']]
    ns = netdesc.nodes(desc)
    newref = T['nodes'][ns[int(T['ref_choice'] * len(ns)) % len(ns)]]
    return {'ref': newref, 'branches': brs}


def transform_circ(cd, T, keep_ground=False):
    comps, ground = [], None
    for c in cd['components']:
        nc = copy.deepcopy(c)
        if c['ctor'] == 'ground':
            ground = nc
            continue
        nc['id'] = T['ids'][c['id']]
        nc['nodes'] = [T['nodes'][n] for n in c['nodes']]
        if c['id'] in T['reverse']:
            nc['nodes'] = nc['nodes'][::-1]
            for k in ('V', 'I'):
                if k in nc['args'] and c['ctor'].endswith('source'):
                    nc['args'][k] = neg(nc['args'][k])
        comps.append(nc)
    comps = [comps[k] for k in T['perm']]
    ns = circdesc.nodes({'components': comps})
    gid = 'gnd*' if 'gnd*' not in T['ids'].values() else 'gnd**'
    comps.insert(int(T['ref_choice'] * 7) % (len(comps) + 1), {'ctor': 'ground', 'id': gid, 'nodes': [ns[int(T['ref_choice'] * 1000) % len(ns)]], 'args': {}})
    return {'components': comps}


def generate(tier, seed, shard, nshards):
    rng = random.Random(f'C03/{seed}/{shard}')
    n = N[tier]
    from .C06 import salted
    for k in range(n['net'] // nshards):
        d = G.random_network(rng, max_nodes=6, max_branches=10)
        if k % 4 == 3:
            d = salted(rng, d)            # nodes / node groups hanging on open branches, labelled to sort before or after the others
        for _ in range(2):
            yield {'kind': 'net', 'net': d, 'T': make_transform(rng, netdesc.nodes(d), [b['id'] for b in d['branches']], G.NODE_POOL, G.ID_POOL)}
    for _ in range(n['circ'] // nshards):
        shared = [G.value(rng, 0, 4)]
        cd = GC.random_circuit(rng, freqs=shared, lossy=0.25)
        ids = [c['id'] for c in cd['components'] if c['ctor'] != 'ground']
        w = rng.choice(shared + [0.0, 10 ** rng.uniform(0, 4)])
        for _ in range(2):
            yield {'kind': 'circ', 'circuit': cd, 'w': w, 'T': make_transform(rng, circdesc.nodes(cd), ids, G.NODE_POOL, GC.COMP_IDS)}
    for _ in range(n['ssm'] // nshards):
        cd = C10.dyn_circuit(rng)
        if cd is None:
            continue
        ids = [c['id'] for c in cd['components'] if c['ctor'] != 'ground']
        for _ in range(2):
            yield {'kind': 'ssm', 'circuit': cd, 'T': make_transform(rng, circdesc.nodes(cd), ids, G.NODE_POOL, C10.DYN_IDS)}
    for _ in range(n['transient'] // nshards):
        c = C12.transient_case(rng)
        if c is None:
            continue
        cd = c['circuit']
        ids = [x['id'] for x in cd['components'] if x['ctor'] != 'ground']
        yield {'kind': 'transient', **c, 'T': make_transform(rng, circdesc.nodes(cd), ids, G.NODE_POOL, C10.DYN_IDS)}


def tclass(T, old_ids, old_nodes):
    return (order_changed(old_ids, [T['ids'][i] for i in old_ids]), order_changed(old_nodes, [T['nodes'][n] for n in old_nodes]),
            len(T['reverse']) > 0, T['perm'] != sorted(T['perm']))


def judge(case, ctx, prefix='C03'):
    return {'net': judge_net, 'circ': judge_circ, 'ssm': judge_ssm, 'transient': judge_transient}[case['kind']](case, ctx, prefix)


def collect(sol, node_list, ids):
    out = {'phi': {}, 'V': {}, 'I': {}, 'P': {}}
    for n in node_list:
        v = call(sol.get_potential, n)
        if raised(v):
            return v
        out['phi'][n] = complex(v)
    for i in ids:
        for cls, g in (('V', sol.get_voltage), ('I', sol.get_current), ('P', sol.get_power)):
            v = call(g, i)
            if raised(v):
                return v
            out[cls][i] = complex(v)
    return out


def compare_solutions(ctx, prefix, what, o1, o2, T, nodes, ids, tol, s_phi, s_i, tc):
    anchor = nodes[0]
    tag = 'reversal' if tc[2] else ('order' if (tc[0] or tc[1]) else 'permutation-or-reference')
    for n in nodes:
        d1 = o1['phi'][n] - o1['phi'][anchor]
        d2 = o2['phi'][T['nodes'][n]] - o2['phi'][T['nodes'][anchor]]
        if abs(d1 - d2) > tol * s_phi:
            ctx.violation(f'{prefix}/{what}/potential-difference/{tag}', f'phi({n!r})-phi({anchor!r}) = {d1!r} but {d2!r} after the transform', {'transform': T})
            return False
    for i in ids:
        sg = -1 if i in T['reverse'] else 1
        for cls, s in (('V', s_phi), ('I', s_i)):
            if abs(o1[cls][i] - sg * o2[cls][T['ids'][i]]) > tol * s:
                ctx.violation(f'{prefix}/{what}/{cls}/{tag}', f'{cls}({i!r}) = {o1[cls][i]!r} but {sg * o2[cls][T["ids"][i]]!r} (sign-corrected) after the transform', {'transform': T})
                return False
        if abs(o1['P'][i] - o2['P'][T['ids'][i]]) > tol * s_phi * s_i:
            ctx.violation(f'{prefix}/{what}/P/{tag}', f'P({i!r}) = {o1["P"][i]!r} but {o2["P"][T["ids"][i]]!r} after the transform', {'transform': T})
            return False
    return True


def judge_net(case, ctx, prefix):
    from CircuitCalculator.Network.NodalAnalysis.bias_point_analysis import nodal_analysis_bias_point_solver
    from CircuitCalculator.Network.NodalAnalysis.node_analysis import open_circuit_impedance
    d1, T = case['net'], case['T']
    refd = netsolve.reference(d1)
    if refd is None or refd['kappa'] > netsolve.KAPPA_MAX:
        impedance_pairs_only(case, ctx, prefix)
        return
    d2 = transform_net(d1, T)
    nodes, ids = netdesc.nodes(d1), [b['id'] for b in d1['branches']]
    tc = tclass(T, ids, nodes)
    ctx.evaluated(netdesc.signature(d1) + repr(tc), (tc[0] or tc[1] or tc[2]) and not refd['trivial'])
    ctx.count('pairs_net')
    ctx.sample({'kind': 'net', 'original': d1, 'transformed': d2})
    outs = []
    from CircuitCalculator.Network.NodalAnalysis.bias_point_analysis import NodalAnalysisBiasPointSolution
    from .. import mappers
    numbered = len(ids) % 3 == 0          # every third pair: the transformed network is solved with a caller's node / source numbering on top
    if numbered:
        ctx.count('pairs_net_with_custom_numbering')
    for d in (d1, d2):
        net = call(netdesc.to_lib, d)
        if numbered and d is d2 and not raised(net):
            sol = call(NodalAnalysisBiasPointSolution, net, **mappers.custom_numbering(len(ids) * 17 + len(nodes)))
        else:
            sol = call(nodal_analysis_bias_point_solver, net) if not raised(net) else net
        o = collect(sol, netdesc.nodes(d), [b['id'] for b in d['branches']]) if not raised(sol) else sol
        if raised(o):
            ctx.violation(f'{prefix}/net/raised/{o.key}/{"transformed" if d is d2 else "original"}', o.text, {'transform': T})
            return
        outs.append((net, o))
    tol = refd['tol'] * 8
    if not compare_solutions(ctx, prefix, 'net', outs[0][1], outs[1][1], T, nodes, ids, tol, refd['s_phi'], refd['s_i'], tc):
        return
    # port impedances
    prs = [(a, b) for a in nodes for b in nodes if a != b]
    ctx.rng.shuffle(prs)
    for a, b in prs[:2]:
        z1 = call(open_circuit_impedance, outs[0][0], a, b)
        z2 = call(open_circuit_impedance, outs[1][0], T['nodes'][a], T['nodes'][b])
        if raised(z1) and raised(z2):
            continue
        if raised(z1) != raised(z2):
            ctx.violation(f'{prefix}/net/impedance-raises-only-on-one-side', f'Z({a!r},{b!r}): {z1!r} vs {z2!r}', {'transform': T})
            continue
        z1, z2 = complex(z1), complex(z2)
        if not (np.isfinite(z1) and np.isfinite(z2)):
            if np.isfinite(z1) != np.isfinite(z2):
                ctx.violation(f'{prefix}/net/impedance-finite-only-on-one-side', f'Z({a!r},{b!r}): {z1!r} vs {z2!r}', {'transform': T})
            continue
        kap, sc = floatmna.kappa_and_scales(refd['ref_net'])
        if abs(z1 - z2) > refd['tol'] * 64 * max(abs(z1), sc['zmax']):
            ctx.violation(f'{prefix}/net/port-impedance', f'Z({a!r},{b!r}) = {z1!r} but {z2!r} after the transform', {'transform': T})
        ctx.count('impedance_pairs')
    # port voltages (the Thevenin voltage of a node pair) are potential differences too: the same under the transform, and they
    # prefer pairs bridged by a single element, where a reversed listing of that element must not matter
    from CircuitCalculator.Network.NodalAnalysis.bias_point_analysis import open_circuit_voltage
    bridged = [(b['n1'], b['n2']) for b in d1['branches'] if b['n1'] != b['n2']]
    ctx.rng.shuffle(bridged)
    for a, b in (bridged[:2] + [(y, x) for x, y in bridged[:1]] + prs[:1]):
        u1 = call(open_circuit_voltage, outs[0][0], a, b)
        u2 = call(open_circuit_voltage, outs[1][0], T['nodes'][a], T['nodes'][b])
        ctx.count('port_voltage_pairs')
        if raised(u1) or raised(u2):
            if raised(u1) != raised(u2):
                ctx.violation(f'{prefix}/net/port-voltage-raises-only-on-one-side', f'U({a!r},{b!r}): {u1!r} vs {u2!r}', {'transform': T})
            continue
        if abs(complex(u1) - complex(u2)) > tol * refd['s_phi']:
            ctx.violation(f'{prefix}/net/port-voltage', f'open_circuit_voltage({a!r},{b!r}) = {complex(u1)!r} but {complex(u2)!r} after the transform', {'transform': T})


def impedance_pairs_only(case, ctx, prefix):
    """networks that cannot be solved (floating parts) still have port impedances: relate them under the transform"""
    from CircuitCalculator.Network.NodalAnalysis.node_analysis import open_circuit_impedance
    from ..ref import tableau
    d1, T = case['net'], case['T']
    d2 = transform_net(d1, T)
    n1, n2 = call(netdesc.to_lib, d1), call(netdesc.to_lib, d2)
    if raised(n1) or raised(n2):
        ctx.count('set_aside')
        return
    nodes = netdesc.nodes(d1)
    ref_net = netdesc.to_ref(d1)
    prs = [(a, b) for a in nodes for b in nodes if a != b]
    ctx.rng.shuffle(prs)
    tc = tclass(T, [b['id'] for b in d1['branches']], nodes)
    for a, b in prs[:4]:
        st, zref = tableau.port_impedance(ref_net, a, b)
        if st != 'ok':
            continue
        part = tableau.port_part(ref_net, a, b)
        kap, sc = floatmna.kappa_and_scales(part)
        if not kap < 1e8:
            continue
        z1 = call(open_circuit_impedance, n1, a, b)
        z2 = call(open_circuit_impedance, n2, T['nodes'][a], T['nodes'][b])
        ctx.count('impedance_pairs'); ctx.count('impedance_pairs_with_floating_parts')
        ctx.evaluated(netdesc.signature(d1) + repr(tc) + 'Z', tc[0] or tc[1] or tc[2])
        if raised(z1) or raised(z2):
            if raised(z1) != raised(z2):
                ctx.violation(f'{prefix}/net/impedance-raises-only-on-one-side', f'Z({a!r},{b!r}): {z1!r} vs {z2!r}', {'transform': T})
            continue
        z1, z2 = complex(z1), complex(z2)
        if abs(z1 - z2) > floatmna.tolerance(kap) * 64 * max(abs(z1), sc['zmax']):
            ctx.violation(f'{prefix}/net/port-impedance', f'Z({a!r},{b!r}) = {z1!r} but {z2!r} after the transform (network with floating parts)', {'transform': T})


def judge_circ(case, ctx, prefix):
    from CircuitCalculator.Circuit.solution import ComplexSolution
    cd1, T, w = case['circuit'], case['T'], case['w']
    ref_net = circdesc.ref_network(cd1, w, W_RES)
    refd = netsolve.reference_from_ref(ref_net)
    if refd is None or refd['kappa'] > netsolve.KAPPA_MAX:
        ctx.count('set_aside')
        return
    cd2 = transform_circ(cd1, T)
    nodes = circdesc.nodes(cd1)
    ids = [c['id'] for c in cd1['components'] if c['ctor'] != 'ground']
    tc = tclass(T, ids, nodes)
    ctx.evaluated(circdesc.signature(cd1, tc), (tc[0] or tc[1] or tc[2]) and not refd['trivial'])
    ctx.count('pairs_circ')
    outs = []
    for cd in (cd1, cd2):
        circ = call(circdesc.to_lib, cd)
        sol = call(ComplexSolution, circuit=circ, w=w, peak_values=True) if not raised(circ) else circ
        o = collect(sol, circdesc.nodes(cd), [c['id'] for c in cd['components'] if c['ctor'] != 'ground']) if not raised(sol) else sol
        if raised(o):
            ctx.violation(f'{prefix}/circ/raised/{o.key}/{"transformed" if cd is cd2 else "original"}', o.text, {'transform': T})
            return
        outs.append(o)
    compare_solutions(ctx, prefix, 'circ', outs[0], outs[1], T, nodes, ids, refd['tol'] * 8, refd['s_phi'], refd['s_i'], tc)


def model_tf(cd, ws):
    circ, net, ssm, cv, lv = C10.build_models(cd)
    comps = [c for c in cd['components'] if c['ctor'] != 'ground']
    nodes = circdesc.nodes({'components': comps})
    rows_c = [ssm.c_row_for_potential(n) for n in nodes] + [ssm.c_row_voltage(c['id']) for c in comps] + [ssm.c_row_current(c['id']) for c in comps]
    rows_d = [ssm.d_row_for_potential(n) for n in nodes] + [ssm.d_row_voltage(c['id']) for c in comps] + [ssm.d_row_current(c['id']) for c in comps]
    labels = [('phi', n) for n in nodes] + [('V', c['id']) for c in comps] + [('I', c['id']) for c in comps]
    Cm = np.vstack([np.asarray(r, dtype=float).reshape(1, -1) for r in rows_c])
    Dm = np.vstack([np.asarray(r, dtype=float).reshape(1, -1) for r in rows_d])
    out = {}
    kmax = 1.0
    for w in ws:
        try:
            H, k = dynamics.transfer(ssm.A, ssm.B, Cm, Dm, w)
        except np.linalg.LinAlgError:
            continue                      # w sits on a natural frequency of a lossless circuit
        if not float(k) < 1e8:
            continue
        kmax = max(kmax, float(k))
        for j, s in enumerate(ssm.sources):
            for r, lab in enumerate(labels):
                out[(w, s) + lab] = complex(H[r, j])
    return out, list(ssm.sources), ssm.A, kmax


def judge_ssm(case, ctx, prefix):
    cd1, T = case['circuit'], case['T']
    ok, _ = dynamics.non_degenerate(cd1)
    if not ok:
        ctx.count('set_aside')
        return
    cd2 = transform_circ(cd1, T)
    nodes = circdesc.nodes(cd1)
    ids = [c['id'] for c in cd1['components'] if c['ctor'] != 'ground']
    tc = tclass(T, ids, nodes)
    tag = 'reversal' if tc[2] else ('order' if (tc[0] or tc[1]) else 'permutation-or-reference')
    m1 = call(model_tf, cd1, [0.0])
    if raised(m1):
        ctx.violation(f'{prefix}/ssm/raised/{m1.key}/original', m1.text, {})
        return
    lo, hi = C10.time_constants(m1[2])
    ws = [0.0, float(math.sqrt(lo * hi)), float(hi * 3)]
    m1 = call(model_tf, cd1, ws)
    m2 = call(model_tf, cd2, ws)
    ctx.evaluated(circdesc.signature(cd1, ('ssm',) + tc), tc[0] or tc[1] or tc[2])
    ctx.count('pairs_ssm')
    for m, side in ((m1, 'original'), (m2, 'transformed')):
        if raised(m):
            ctx.violation(f'{prefix}/ssm/raised/{m.key}/{side}', m.text, {'transform': T})
            return
    if max(m1[3], m2[3]) > 1e8:
        ctx.count('set_aside')
        return
    if sorted(T['ids'][s] for s in m1[1]) != sorted(m2[1]):
        ctx.violation(f'{prefix}/ssm/published-sources-differ', f'{m1[1]!r} -> {m2[1]!r}', {'transform': T})
        return
    tol = floatmna.tolerance(max(m1[3], m2[3])) * 64
    anchor = nodes[0]
    scale = {}
    for w in ws:
        for s in m1[1]:
            rd = netsolve.reference_from_ref(dynamics.unit_response_network(cd1, w, s))
            if rd is not None and rd['kappa'] < 1e8:
                scale[(w, s, 'phi')] = scale[(w, s, 'V')] = rd['s_phi']
                scale[(w, s, 'I')] = rd['s_i']
    for (w, s, cls, ident), v in m1[0].items():
        if (w, s, cls) not in scale or (w, T['ids'][s], 'phi', T['nodes'][anchor]) not in m2[0]:
            continue
        ssg = -1 if s in T['reverse'] else 1
        s2 = T['ids'][s]
        if cls == 'phi':
            d1 = v - m1[0][(w, s, 'phi', anchor)]
            d2 = m2[0][(w, s2, 'phi', T['nodes'][ident])] - m2[0][(w, s2, 'phi', T['nodes'][anchor])]
            got = ssg * d2
            exp = d1
            sc = scale[(w, s, 'phi')]
        else:
            osg = -1 if ident in T['reverse'] else 1
            got = ssg * osg * m2[0][(w, s2, cls, T['ids'][ident])]
            exp = v
            sc = scale[(w, s, cls)]
        if abs(got - exp) > tol * sc + 1e-9 * sc:
            ctx.violation(f'{prefix}/ssm/transfer/{cls}/{tag}', f'H[{cls}({ident!r}) <- {s!r}](j{w:.5g}) = {exp!r} but {got!r} (sign-corrected) after the transform', {'transform': T})
            return
        ctx.count('transfer_values_related')


def judge_transient(case, ctx, prefix):
    cd1, T = case['circuit'], case['T']
    ok, _ = dynamics.non_degenerate(cd1)
    if not ok:
        ctx.count('set_aside')
        return
    cd2 = transform_circ(cd1, T)
    inputs2 = {}
    for sid, spec in case['inputs'].items():
        sg = -1 if sid in T['reverse'] else 1
        inputs2[T['ids'][sid]] = {'shape': spec['shape'], 'level': sg * spec['level'], 'points': [(k, sg * v) for k, v in spec['points']]}
    c1 = {'circuit': cd1, 'n': case['n'], 'inputs': case['inputs'], 'settle': case.get('settle')}
    c2 = {'circuit': cd2, 'n': case['n'], 'inputs': inputs2, 'settle': case.get('settle')}
    o1 = C12.run_transient(c1, ctx, prefix + '/transient/original')
    if o1 is None:
        return
    # two float simulations of a system whose time constants are more than six decades apart, or whose DC construction matrix is
    # ill-conditioned, differ by more than rounding whatever the library does (same policy as C12 / C10)
    if o1['stiffness'] > 1e6 or not dynamics.construction_kappa(cd1) <= 1e8:
        ctx.count('set_aside_stiff_or_ill_conditioned_transient')
        return
    # same grid for both runs: force h of the original
    import vmon.props.C12 as c12
    h = o1['h']
    orig_grid = c12.grid_for
    c12.grid_for = lambda cd, case_: (h, o1['lam_max'], o1['lam_min_re'], None)
    try:
        o2 = C12.run_transient(c2, ctx, prefix + '/transient/transformed')
    finally:
        c12.grid_for = orig_grid
    if o2 is None:
        return
    nodes = circdesc.nodes(cd1)
    ids = [c['id'] for c in cd1['components'] if c['ctor'] != 'ground']
    tc = tclass(T, ids, nodes)
    tag = 'reversal' if tc[2] else ('order' if (tc[0] or tc[1]) else 'permutation-or-reference')
    ctx.evaluated(circdesc.signature(cd1, ('tr',) + tc), tc[0] or tc[1] or tc[2])
    ctx.count('pairs_transient')
    sv = max(o1['sig_v'], max(float(np.max(np.abs(v))) for v in o1['V'].values()))
    si = max(o1['sig_i'], max(float(np.max(np.abs(v))) for v in o1['I'].values()))
    anchor = nodes[0]
    for n in nodes:
        d1 = o1['phi'][n] - o1['phi'][anchor]
        d2 = o2['phi'][T['nodes'][n]] - o2['phi'][T['nodes'][anchor]]
        if np.max(np.abs(d1 - d2)) > 1e-6 * sv:
            ctx.violation(f'{prefix}/transient/potential-difference/{tag}', f'waveform phi({n!r})-phi({anchor!r}) changes by {float(np.max(np.abs(d1 - d2)))!r} under the transform', {'transform': T})
            return
    for i in ids:
        sg = -1 if i in T['reverse'] else 1
        for cls, s in (('V', sv), ('I', si)):
            if np.max(np.abs(o1[cls][i] - sg * o2[cls][T['ids'][i]])) > 1e-6 * s:
                ctx.violation(f'{prefix}/transient/{cls}/{tag}', f'waveform {cls}({i!r}) changes by {float(np.max(np.abs(o1[cls][i] - sg * o2[cls][T["ids"][i]])))!r} under the transform', {'transform': T})
                return


def guards(m, tier):
    c = m['counters']
    r = []
    q = tier == 'quick'
    for k, need in (('pairs_net', 900), ('pairs_circ', 350), ('pairs_ssm', 250), ('pairs_transient', 60), ('impedance_pairs', 500), ('transfer_values_related', 20000)):
        need = need if q else need * 12
        if c.get(k, 0) < need:
            r.append(f'{k} = {c.get(k, 0)} (<{need})')
    return r
