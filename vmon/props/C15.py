"""C15 - saving, reloading and declarative descriptions preserve the circuit."""
from __future__ import annotations
import copy, json, math, os, random, tempfile
from ..gen import circuits as GC
from ..gen import networks as G
from ..gen import drawings as D
from .. import circdesc
from ..observe import call, raised
from . import C13

TITLE = "C15 JSON save/load of a schematic (1..5 cycles) and declarative element lists preserve components, connectivity and reference node"
LEVEL = 'exploration'
RULE = ("drawings of the C13 generator restricted to the symbol kinds the loader rebuilds (DC/AC/rectangular/complex voltage and current "
        "sources with either reverse flag and degree/radian phase input, resistor, conductance, impedance, capacitor, inductance, ground, "
        "wires) serialised to JSON text or file and reloaded 1-5 times; after every cycle the translated circuit is compared with the "
        "original one: component ids, kinds, values and terminal order through an independent reading of the component fields, "
        "connectivity up to a node bijection, same ground. Declarative element lists over the handler table (all four directions, "
        "lengths, place_after chains) are compared with the equivalent programmatic construction. Non-trivial: >=2 symbols incl. >=1 "
        "source; distinct by (symbol multiset, reverse/deg pattern, cycles, text/file).")
ASSUMPTIONS = [
    "two translated circuits are 'the same' when every component has the same id, kind and value dictionary (1e-12 relative), the same terminal order and the node labels are related by one bijection that maps ground to ground",
    "YAML for schematics is not claimed (the statement says JSON)",
]
N_PROG = {'quick': 150, 'thorough': 2600}
N_DECL = {'quick': 110, 'thorough': 2000}
PASSIVE = ['resistor', 'resistor', 'conductance', 'impedance']
SRC = {'dc': ['dc_voltage_source', 'dc_current_source'], 'ac': ['ac_voltage_source', 'ac_current_source', 'periodic_voltage_source', 'periodic_current_source'],
       'complex': ['complex_voltage_source', 'complex_current_source']}


def make_program(rng):
    family = rng.choice(['dc', 'ac', 'ac', 'complex'])
    w = G.value(rng, 1, 3)
    cd = GC.random_circuit(rng, max_nodes=4, max_comps=6, passives=PASSIVE, n_reactive=(0, 2), sources=SRC[family], n_sources=(1, 2), freqs=[w],
                           ground_prob=0.85, lossy=0.0, node_pool=[f'N{k}' for k in range(8)],
                           id_pool=['R1', 'R2', 'R3', 'G1', 'Z1', 'Vs', 'Vq', 'Is', 'Iq', 'A', 'B', 'L1', 'C1', 'C2', 'L2', 'U1', 'K'])
    for c in cd['components']:
        if c['ctor'].startswith('periodic'):
            c['args']['wavetype'] = 'rect'
            c['args'].pop('R', None); c['args'].pop('G', None)
    prog = D.embed(rng, cd, labels={})
    return prog, family


def generate(tier, seed, shard, nshards):
    rng = random.Random(f'C15/{seed}/{shard}')
    for _ in range(N_PROG[tier] // nshards):
        prog, family = make_program(rng)
        yield {'kind': 'roundtrip', 'program': prog, 'family': family, 'cycles': rng.randint(1, 5), 'via_file': rng.random() < 0.3, 'seed': rng.getrandbits(8)}
    for _ in range(N_DECL[tier] // nshards):
        yield {'kind': 'declarative', 'seed': rng.getrandbits(32)}


def circuits_equal(c0, c1):
    """-> None or a description of the first difference"""
    a = [c for c in c0.components if c.type != 'ground']
    b = {c.id: c for c in c1.components if c.type != 'ground'}
    if sorted(x.id for x in a) != sorted(b):
        return 'component-set', f'{sorted(x.id for x in a)!r} -> {sorted(b)!r}'
    m = {}
    inv = {}
    for x in a:
        y = b[x.id]
        if x.type != y.type:
            return f'kind/{x.type}', f'{x.id!r}: {x.type!r} -> {y.type!r}'
        vx, vy = dict(x.value), dict(y.value)
        if set(vx) != set(vy):
            return f'value/{x.type}', f'{x.id!r}: {vx!r} -> {vy!r}'
        for k in vx:
            if isinstance(vx[k], str) or isinstance(vy[k], str):
                if vx[k] != vy[k]:
                    return f'value/{x.type}/{k}', f'{x.id!r}: {k} {vx[k]!r} -> {vy[k]!r}'
            elif abs(vx[k] - vy[k]) > 1e-12 * max(abs(vx[k]), abs(vy[k])):
                return f'value/{x.type}/{k}', f'{x.id!r}: {k} {vx[k]!r} -> {vy[k]!r}'
        if len(x.nodes) != len(y.nodes):
            return 'terminals', f'{x.id!r}'
        for n0, n1 in zip(x.nodes, y.nodes):
            if m.setdefault(n0, n1) != n1 or inv.setdefault(n1, n0) != n0:
                return f'connectivity/{x.type}', f'{x.id!r}: nodes {x.nodes!r} -> {y.nodes!r} break the node bijection {m!r}'
    g0 = [c for c in c0.components if c.type == 'ground']
    g1 = [c for c in c1.components if c.type == 'ground']
    if len(g0) != len(g1):
        return 'ground-symbol', f'{len(g0)} -> {len(g1)} ground components'
    if c0.ground_node in m and m[c0.ground_node] != c1.ground_node:
        return 'reference-node', f'{c0.ground_node!r} -> {c1.ground_node!r} (bijection says {m[c0.ground_node]!r})'
    return None


def judge(case, ctx, prefix='C15'):
    if case['kind'] == 'declarative':
        return judge_declarative(case, ctx, prefix)
    from CircuitCalculator.SimpleCircuit import dump_load as sdl
    from CircuitCalculator.SimpleCircuit.DiagramTranslator import circuit_translator
    prog = case['program']
    if C13.rounding_boundary(prog) or not C13.well_separated(prog):
        return
    d = call(D.build, prog)
    if raised(d) or not D.geometry_ok(prog, d):
        ctx.count('set_aside_geometry')
        return
    c0 = call(circuit_translator, d)
    if raised(c0):
        ctx.count('set_aside_translation_failed')
        return
    syms = sorted(s['sym'] for s in prog['symbols'] if s['sym'] != 'Line')
    flags = sorted((s['sym'], bool(s.get('reverse')), bool(s.get('args', {}).get('deg')), bool(s.get('args', {}).get('sin'))) for s in prog['symbols'] if s['sym'].endswith('Source'))
    nt = len(syms) >= 3 and any(s.endswith('Source') for s in syms)
    ctx.evaluated(repr((syms, flags, case['cycles'], case['via_file'])), nt)
    ctx.count('drawings'); ctx.sample(case)
    cur = d
    for k in range(1, case['cycles'] + 1):
        if case['via_file']:
            with tempfile.TemporaryDirectory() as td:
                os.makedirs(os.path.join(td, 'proj.d'), exist_ok=True)
                fn = os.path.join(td, 'proj.d', f'schematic.v{k}.json')      # dots in the directory and in the stem: only the last suffix is the format
                r = call(sdl.dump, fn, cur)
                nxt = call(sdl.load, fn) if not raised(r) else r
        else:
            txt = call(sdl.serialize, cur, 'json')
            nxt = call(sdl.deserialize, txt, 'json') if not raised(txt) else txt
        stage = 'first-cycle' if k == 1 else 'later-cycle'
        if raised(nxt):
            ctx.violation(f'{prefix}/round-trip-raised/{stage}/{nxt.key}', f'save/load cycle {k} raised {nxt.text} (symbols {syms!r})', {})
            return
        if (case.get('seed', 0) + k) % 2 == 0:
            # what comes back is a drawing: it can be rendered (and is then read like any rendered drawing)
            rr = call(lambda: nxt.draw(show=False))
            ctx.count('reloaded_drawings_rendered')
            if raised(rr):
                kinds = sorted({s['sym'] for s in prog['symbols']})
                ctx.violation(f'{prefix}/reloaded-drawing-cannot-be-rendered/{stage}/{rr.key}', f'after cycle {k}: draw() raised {rr.text} (symbols {kinds!r})', {})
                return
        ck = call(circuit_translator, nxt)
        if raised(ck):
            ctx.violation(f'{prefix}/reloaded-drawing-untranslatable/{stage}/{ck.key}', f'after cycle {k}: {ck.text}', {})
            return
        diff = circuits_equal(c0, ck)
        ctx.count('cycles_compared')
        if diff:
            feat = _feature(prog, diff)
            dcls = 'phase' if diff[0].endswith('/phi') else diff[0]
            ctx.violation(f'{prefix}/circuit-changed/{stage}/{dcls}/{feat}', f'after {k} save/load cycle(s): {diff[1]}', {'flags': flags})
            return
        cur = nxt


def _feature(prog, diff):
    """which input option the changed source used (mechanism class)"""
    name = diff[1].split("'")[1] if "'" in diff[1] else ''
    for s in prog['symbols']:
        if s.get('name') == name:
            a = s.get('args', {})
            return 'degree-or-sine-phase-option' if (a.get('deg') or a.get('sin')) else 'plain-phase'
    return 'n/a'


# ---- declarative lists vs programmatic construction --------------------------------------------------------------------------
DECL = {
    'resistor': ('Resistor', lambda rng: {'R': G.value(rng, 0, 3)}), 'conductance': ('Conductance', lambda rng: {'G': 1 / G.value(rng, 0, 3)}),
    'impedance': ('Impedance', lambda rng: {'Z': complex(G.value(rng, 0, 3), -G.value(rng, 0, 2))}), 'capacitor': ('Capacitor', lambda rng: {'C': G.value(rng, -7, -4)}),
    'inductance': ('Inductance', lambda rng: {'L': G.value(rng, -4, -2)}), 'lamp': ('Lamp', lambda rng: {'V_ref': 12.0, 'P_ref': G.value(rng, 0, 2)}),
    'voltage_source': ('VoltageSource', lambda rng: {'V': rng.choice([1, -1]) * G.value(rng, 0, 2)}), 'current_source': ('CurrentSource', lambda rng: {'I': rng.choice([1, -1]) * G.value(rng, -3, -1)}),
    'ac_voltage_source': ('ACVoltageSource', lambda rng: {'V': G.value(rng, 0, 2), 'w': G.value(rng, 1, 3), 'phi': rng.uniform(-3, 3)}),
    'ac_current_source': ('ACCurrentSource', lambda rng: {'I': G.value(rng, -3, -1), 'w': G.value(rng, 1, 3), 'phi': rng.uniform(-3, 3)}),
    'complex_voltage_source': ('ComplexVoltageSource', lambda rng: {'V': complex(G.value(rng, 0, 2), G.value(rng, 0, 1))}),
    'complex_current_source': ('ComplexCurrentSource', lambda rng: {'I': complex(G.value(rng, -3, -1), -G.value(rng, -3, -1))}),
}


def judge_declarative(case, ctx, prefix):
    from CircuitCalculator.SimpleSimulation.schematic import create_schematic
    from CircuitCalculator.SimpleCircuit import Elements as elm
    from CircuitCalculator.SimpleCircuit.DiagramTranslator import circuit_translator
    rng = random.Random(case['seed'])
    unit = rng.choice([3, 4, 7])
    n = rng.randint(3, 7)
    dirs = ['up', 'right', 'down', 'left']
    els = []
    names = []
    for k in range(n):
        t = rng.choice(list(DECL)) if k else rng.choice(['voltage_source', 'current_source', 'ac_voltage_source'])
        vals = DECL[t][1](rng)
        e = {'type': t, 'name': f'{t[:2].upper()}{k}', **vals, 'direction': rng.choice(dirs)}
        if k == 0 and rng.random() < 0.3:
            del e['direction']                      # no direction given: the symbol takes the drawing's default direction and length
        if rng.random() < 0.4:
            e['length'] = rng.choice([1, 2, 0.5, 1.5])
        if t.endswith('source') and rng.random() < 0.4:
            e['reverse'] = True
        if k >= 2 and rng.random() < 0.3:
            e['place_after'] = rng.choice(names[:-1])
        names.append(e['name'])
        els.append(e)
        if rng.random() < 0.3:
            w = {'type': 'line', 'direction': rng.choice(dirs)}
            if rng.random() < 0.5:
                w['length'] = rng.choice([1, 2])
            els.append(w)
        if k >= 1 and rng.random() < 0.2:
            nd = {'type': 'node', 'name': f'N{k}'}               # a named node on the current position, possibly turned
            if rng.random() < 0.5:
                nd['direction'] = rng.choice(dirs)
            els.append(nd)
    gnd = {'type': 'ground'}
    if rng.random() < 0.5:
        gnd['direction'] = rng.choice(dirs)                      # a ground symbol is routinely turned (it has a direction but no length)
    els.append(gnd)
    desc = {'unit': unit, 'elements': els}
    if unit == 7 and rng.random() < 0.6:
        del desc['unit']                                         # 'unit' is optional, its default is 7 - with and without an axes
    ctx.evaluated(repr((sorted(e['type'] for e in els), sorted(e.get('direction', '') for e in els), sum('place_after' in e for e in els), sum('length' in e for e in els))), True)
    ctx.count('declarative_lists')
    ctx.sample({'declarative': [{k: ([v.real, v.imag] if isinstance(v, complex) else v) for k, v in e.items()} for e in els], 'unit': unit})
    from .. import purity
    shared = copy.deepcopy(desc)                   # ONE description object, used twice
    before = purity.fp(shared)
    first_use = call(create_schematic, shared)
    sch = call(create_schematic, shared)
    if raised(sch) or raised(first_use):
        bad = first_use if raised(first_use) else sch
        ctx.violation(f'{prefix}/declarative/raised/{"first-use" if raised(first_use) else "second-use"}/{bad.key}', f'create_schematic raised {bad.text}', {})
        return
    if purity.fp(shared) != before:
        ctx.violation(f'{prefix}/declarative/description-modified', 'create_schematic changed the description it was given (direction/length/place_after or values)', {})

    def programmatic():
        d = elm.Schematic(unit=unit, show=False)
        placed = {}
        with d:
            for e in els:
                e = dict(e)
                t = e.pop('type')
                direction, length, after = e.pop('direction', ''), e.pop('length', 1), e.pop('place_after', None)
                if t == 'line':
                    s = elm.Line()
                elif t == 'ground':
                    s = elm.Ground()
                elif t == 'node':
                    s = elm.Node(**e)
                else:
                    s = getattr(elm, DECL[t][0])(**e)
                if direction and t in ('ground', 'node'):
                    s = getattr(s, direction)()
                elif direction:
                    s = getattr(s, direction)(length * unit)
                if after is not None:
                    s = s.at(placed[after].end)
                d += s
                if 'name' in e:
                    placed[e['name']] = s
        return d
    ref = call(programmatic)
    if raised(ref):
        ctx.count('set_aside_programmatic_construction_failed')
        return
    c_decl, c_prog = call(circuit_translator, sch), call(circuit_translator, ref)
    if raised(c_prog):
        ctx.count('set_aside_programmatic_construction_failed')
        return
    if raised(c_decl):
        ctx.violation(f'{prefix}/declarative/untranslatable/{c_decl.key}', c_decl.text, {})
        return
    diff = circuits_equal(c_prog, c_decl)
    ctx.count('declarative_compared')
    if diff:
        ctx.violation(f'{prefix}/declarative/differs-from-programmatic/{diff[0]}', f'(second use of the same description object) {diff[1]}', {})
    c_first = call(circuit_translator, first_use)
    d1 = circuits_equal(c_prog, c_first) if not raised(c_first) else ('untranslatable', c_first.text)
    if d1:
        ctx.violation(f'{prefix}/declarative/differs-from-programmatic/{d1[0]}', f'(first use) {d1[1]}', {})
    if rng.random() < 0.5:
        # the same description drawn into a matplotlib axes handed over by the caller (the simulator's entry point)
        import matplotlib
        matplotlib.use('Agg')
        import matplotlib.pyplot as plt
        fig, ax = plt.subplots()
        try:
            on_ax = call(create_schematic, shared, ax)
            ctx.count('declarative_on_axes')
            if raised(on_ax):
                ctx.violation(f'{prefix}/declarative/on-axes/raised/{on_ax.key}', f'create_schematic(description, axes) raised {on_ax.text}', {})
            else:
                c_ax = call(circuit_translator, on_ax)
                d2 = circuits_equal(c_prog, c_ax) if not raised(c_ax) else ('untranslatable', c_ax.text)
                if d2:
                    ctx.violation(f'{prefix}/declarative/on-axes/differs-from-programmatic/{d2[0]}', f'(drawn into a given axes, unit {unit}) {d2[1]}', {})
        finally:
            plt.close(fig)


def guards(m, tier):
    c = m['counters']
    r = []
    q = tier == 'quick'
    for k, need in (('drawings', 110), ('cycles_compared', 250), ('declarative_compared', 80), ('declarative_on_axes', 30)):
        need = need if q else need * 14
        if c.get(k, 0) < need:
            r.append(f'{k} = {c.get(k, 0)} (<{need})')
    return r
