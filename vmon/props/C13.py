"""C13 - schematic drawings are read as the netlist they depict."""
from __future__ import annotations
import copy, math, random
from ..gen import circuits as GC
from ..gen import networks as G
from ..gen import drawings as D
from .. import circdesc
from ..oracles import netsolve, branchlaw
from ..observe import call, raised

TITLE = "C13 circuit_translator(drawing) = the netlist the drawing depicts; invariant under rotation, translation, scale, wire splitting, order"
LEVEL = 'exploration'
RULE = ("drawing programs over a 6x6 grid obtained by embedding random circuits (3-9 symbols: resistor, conductance, impedance, capacitor, "
        "inductance, lamp, open/closed switch, labelled wire, DC/AC/complex/rect/tri/saw voltage and current sources with either reverse "
        "flag, degree/radian and sine-reference phase input) with every electrical node spread over 1-4 grid points joined by wire trees "
        "(chains, junctions, redundant loops), 0-3 node labels, a ground symbol or none; per program the base drawing and 4 transforms "
        "(rotation by 90/180/270 degrees, translation, drawing unit/step, wires split into 2-3 segments, insertion order). Oracle: an "
        "independent union-find 'turtle' model on the program's grid coordinates + component table; components compared by id, kind, "
        "value and a node bijection; the solved translated circuit is compared with the exact solution of the intended netlist; "
        "SchematicDiagramParser.ground_label against the grounded node; for drawings of the resistor/impedance/DC-source subset the "
        "direct drawing -> Network translation (network_translator) is solved and compared as well. "
        "Non-trivial: >=2 symbols incl. >=1 source; distinct by (symbol multiset, wire-tree shape class, transform).")
ASSUMPTIONS = [
    "schemdraw places two-terminal symbols given by .endpoints(p, q) with start = p and end = q (trusted base; confirmed by the monitor reading absanchors)",
    "interior T-junctions are not claimed to connect; generated wires only meet at endpoints",
    "a closed switch depicts an ideal connection (0 Ohm), an open one an open circuit; the numerical solution is judged when kappa <= 1e8",
]
N_PROG = {'quick': 144, 'thorough': 2400}
W_RES = 1e-3
SRC_SETS = {
    'dc': ['dc_voltage_source', 'dc_current_source'],
    'ac': ['ac_voltage_source', 'ac_current_source', 'periodic_voltage_source', 'periodic_current_source'],
    'complex': ['complex_voltage_source', 'complex_current_source'],
}
PASSIVE = ['resistor', 'resistor', 'conductance', 'impedance', 'lamp']


def random_drawing_circuit(rng, family=None, max_nodes=4, max_comps=6):
    family = family or rng.choice(['dc', 'dc', 'ac', 'ac', 'complex', 'net'])
    w = G.value(rng, 1, 3)
    if family == 'net':
        # the symbol subset that network_translator (drawing -> Network, no Circuit in between) understands
        cd = GC.random_circuit(rng, max_nodes=max_nodes, max_comps=max_comps, passives=['resistor', 'resistor', 'impedance'], n_reactive=(0, 0), sources=SRC_SETS['dc'],
                               n_sources=(1, 2), freqs=[w], ground_prob=0.8, lossy=0.0, node_pool=[f'N{k}' for k in range(8)],
                               id_pool=['R1', 'R2', 'R3', 'Rx', 'Z1', 'Vs', 'Vq', 'Is', 'Iq', 'A', 'B', 'U1', 'S1', 'H1', 'K'])
        return cd, family, w
    cd = GC.random_circuit(rng, max_nodes=max_nodes, max_comps=max_comps, passives=PASSIVE, n_reactive=(0, 2), sources=SRC_SETS[family], n_sources=(1, 2),
                           freqs=[w], ground_prob=0.8, lossy=0.0, node_pool=[f'N{k}' for k in range(8)],
                           id_pool=['R1', 'R2', 'R3', 'Rx', 'G1', 'Z1', 'Vs', 'Vq', 'Is', 'Iq', 'A', 'B', 'L1', 'C1', 'C2', 'L2', 'U1', 'S1', 'H1', 'La', 'K'])
    for c in cd['components']:
        if c['ctor'] in ('ac_voltage_source', 'ac_current_source'):
            c['phase_mode'] = [(False, False), (True, False), (False, True), (True, True)][rng.randrange(4)]      # (sine reference, degrees)
        if c['ctor'] in ('periodic_voltage_source', 'periodic_current_source'):
            c['args']['wavetype'] = rng.choice(['rect', 'tri', 'saw'])
            c['args'].pop('R', None); c['args'].pop('G', None)
    # occasionally a switch or a labelled wire
    comps = [c for c in cd['components'] if c['ctor'] == 'resistor']
    if comps and rng.random() < 0.3:
        rng.choice(comps)['args']['R'] = rng.choice([math.inf, 0.0])
    if rng.random() < 0.12:
        # a passive component bridged by wires: both of its terminals end up on the same electrical node
        two = [c for c in cd['components'] if c['ctor'] != 'ground']
        n = rng.choice(rng.choice(two)['nodes'])
        bid = next(i for i in ['Rb', 'Zb', 'Gb', 'Rx9'] if i not in {x['id'] for x in cd['components']})
        kind = rng.choice(['resistor', 'conductance', 'impedance'])
        args = {'R': G.value(rng, 0, 3)} if kind == 'resistor' else ({'G': 1 / G.value(rng, 0, 3)} if kind == 'conductance' else {'Z': [G.value(rng, 0, 3), G.value(rng, 0, 2)]})
        cd['components'].insert(rng.randrange(len(cd['components']) + 1), {'ctor': kind, 'id': bid, 'nodes': [n, n], 'args': args})
    if rng.random() < 0.35:
        # a labelled wire (ideal ammeter): one terminal of a component is moved to a fresh node that the wire ties back
        two = [c for c in cd['components'] if c['ctor'] != 'ground']
        c = rng.choice(two)
        k = rng.randrange(2)
        old_node, new_node = c['nodes'][k], f'W{rng.randrange(100)}'
        c['nodes'][k] = new_node
        pair = [old_node, new_node] if rng.random() < 0.5 else [new_node, old_node]
        wid = next(i for i in ['W1', 'Am', 'wire', 'S9'] if i not in {x['id'] for x in cd['components']})
        cd['components'].insert(rng.randrange(len(cd['components']) + 1), {'ctor': 'short_circuit', 'id': wid, 'nodes': pair, 'args': {}})
    return cd, family, w


def make_program(rng, tweak=None, family=None):
    cd, family, w = random_drawing_circuit(rng, family)
    if tweak is not None:
        tweak(rng, cd, family, w)
    nodes = circdesc.nodes({'components': [c for c in cd['components'] if c['ctor'] != 'ground']})
    labels = {n: nm for n, nm in zip(rng.sample(nodes, min(len(nodes), rng.randint(0, 3))), rng.sample(['A', 'x', '10', 'out', 'φ1', '1', '2', '3', '4', '5'], 3))}
    prog = D.embed(rng, cd, labels=labels)
    return prog, family, w


def generate(tier, seed, shard, nshards):
    rng = random.Random(f'C13/{seed}/{shard}')
    for k in range(N_PROG[tier] // nshards):
        if k % 6 == 5:
            prog, family, w = D.chain_program(rng)
            yield {'program': prog, 'family': family, 'w': w, 'tseed': rng.getrandbits(32), 'stratum': 'chain'}
            continue
        prog, family, w = make_program(rng)
        yield {'program': prog, 'family': family, 'w': w, 'tseed': rng.getrandbits(32)}


def canonical(net):
    """node-name independent canonical form of an intended netlist (for harness self-checks)"""
    comps = sorted((c['id'], c['ctor'], repr(sorted(c['args'].items(), key=str))) for c in net['components'])
    part = {}
    for c in net['components']:
        for k, n in enumerate(c['nodes']):
            part.setdefault(n, []).append((c['id'], k))
    return comps, sorted(sorted(v) for v in part.values()), sorted((sorted(part.get(n, [])), nm) for n, nm in net['names'].items())


def well_separated(prog):
    pts = set()
    for s in prog['symbols']:
        for k in ('p', 'q', 'at'):
            if k in s:
                pts.add(tuple(round(v, 6) for v in D.phys(prog, s[k])))
    pts = sorted(pts)
    for i, a in enumerate(pts):
        for b in pts[i + 1:]:
            if abs(a[0] - b[0]) < 0.05 and abs(a[1] - b[1]) < 0.05:
                return False
    return True


def lib_component_to_desc(comp):
    """read a library Component back into a circdesc component (field names only; no library logic)"""
    v = dict(comp.value)
    t = comp.type
    args = {}
    if t in ('resistor', 'conductance', 'capacitor', 'inductance', 'lamp', 'resistive_load', 'dc_voltage_source', 'ac_voltage_source', 'dc_current_source',
             'ac_current_source', 'periodic_voltage_source', 'periodic_current_source'):
        args = v
        if t == 'resistor' and 0 <= float(v.get('R', 1)) < 1e-9:
            # how small a resistance stands for a closed switch is the library's choice; whether the choice keeps the circuit
            # 'electrically identical' is decided by the solved numbers (solve_and_compare), not by the value itself
            args = {**v, 'R': 0.0}
    elif t == 'impedance':
        args = {'Z': [v['R'], v['X']]}
    elif t == 'admittance':
        args = {'Y': [v['G'], v['B']]}
    elif t == 'complex_voltage_source':
        args = {'V': [v['V_real'], v['V_imag']], 'Z': [v['R'], v['X']]}
    elif t == 'complex_current_source':
        args = {'I': [v['I_real'], v['I_imag']], 'Y': [v['G'], v['B']]}
    return {'ctor': t, 'id': comp.id, 'nodes': list(comp.nodes), 'args': args}


def rounding_boundary(prog):
    """does a physical coordinate of the program sit (within float noise) on a boundary of the library's 2-decimal rounding?"""
    for s in prog['symbols']:
        for k in ('p', 'q', 'at'):
            if k in s:
                for v in D.phys(prog, s[k]):
                    f = (v * 100.0) % 1.0
                    if abs(f - 0.5) < 1e-6:
                        return True
    return False


def compare_structure(ctx, prefix, circ, net, tname, on_boundary=False):
    """components of the translated circuit vs the intended netlist; returns the node bijection lib->model or None"""
    lib = [c for c in circ.components if c.type != 'ground']
    want = {c['id']: c for c in net['components']}
    got_ids = [c.id for c in lib]
    if sorted(got_ids) != sorted(want):
        ctx.violation(f'{prefix}/component-set', f'translated components {sorted(got_ids)!r}, drawing depicts {sorted(want)!r}', {})
        return None
    l2m, m2l = {}, {}
    for c in lib:
        w = want[c.id]
        ld = lib_component_to_desc(c)
        wt = w['ctor']
        if c.type != wt:
            ctx.violation(f'{prefix}/component-kind/{wt}', f'{c.id!r} translated as {c.type!r}, drawn as {wt!r}', {})
            return None
        for wcur in (0.0, w['args'].get('w', 0.0), 2 * w['args'].get('w', 0.0) + 1.0):
            lb = circdesc.ref_branch(ld, wcur, W_RES)
            wb = circdesc.ref_branch(w, wcur, W_RES)
            # same law up to a simultaneous swap of the terminals and negation of the source value
            amp = w['args'].get('V', w['args'].get('I', 0.0))
            amp = abs(complex(*amp)) if isinstance(amp, list) else abs(amp)
            ok = _same_law(lb, wb, ld['nodes'], w['nodes'], 1e-9 * amp)
            if ok is None:
                ctx.violation(f'{prefix}/component-value/{wt}', f'{c.id!r}: translated {ld!r}, drawing depicts {w!r} (at w={wcur!r})', {})
                return None
            pairs = ok
        for ln, mn in pairs:
            if l2m.setdefault(ln, mn) != mn:
                ctx.violation(f'{prefix}/nodes-merged/{"coordinate-on-rounding-boundary" if on_boundary else "regular-coordinates"}', f'library node {ln!r} stands for two distinct electrical nodes of the drawing ({l2m[ln]!r}, {mn!r}) at {c.id!r}', {})
                return None
            if m2l.setdefault(mn, ln) != ln:
                ctx.violation(f'{prefix}/node-split/{"coordinate-on-rounding-boundary" if on_boundary else "regular-coordinates"}', f'electrical node {mn!r} of the drawing became two library nodes ({m2l[mn]!r}, {ln!r}) at {c.id!r}', {})
                return None
    for mn, name in net['names'].items():
        if mn in m2l and m2l[mn] != name:
            what = 'ground' if mn == net['ground'] else 'label'
            ctx.violation(f'{prefix}/node-name/{what}/{"coordinate-on-rounding-boundary" if on_boundary else "regular-coordinates"}', f'node carrying the {what} {name!r} is called {m2l[mn]!r}', {})
            return None
    if net['ground'] is not None:
        if circ.ground_node != net['names'][net['ground']]:
            ctx.violation(f'{prefix}/ground-node', f'ground_node = {circ.ground_node!r}, ground symbol sits on {net["names"][net["ground"]]!r}', {})
            return None
    ctx.count('structures_matched')
    return l2m


def _same_law(lb, wb, lnodes, wnodes, floor=0.0):
    """-> list of (lib node, model node) pairs if the two reference branches describe the same element, else None"""
    from ..ref.tableau import normalise
    kl, pl = normalise(lb)
    kw, pw = normalise(wb)
    if kl != kw:
        return None

    def close(a, b):
        a, b = complex(a), complex(b)
        return abs(a - b) <= max(1e-12 * max(abs(a), abs(b)), floor)
    same = all(close(pl[k], pw[k]) for k in pl)
    if same:
        return list(zip(lnodes, wnodes))
    if kl in ('V', 'I', 'LV', 'LI'):
        src = 'V' if kl in ('V', 'LV') else 'I'
        if all(close(pl[k], -complex(pw[k]) if k == src else pw[k]) for k in pl):
            return list(zip(lnodes, wnodes[::-1]))
    return None


def solve_and_compare(ctx, prefix, circ, net, l2m, family, w, tname):
    from CircuitCalculator.Circuit.solution import ComplexSolution, DCSolution
    m2l = {m: l for l, m in l2m.items()}
    g = net['ground'] if net['ground'] is not None else None
    if g is None:
        # no ground symbol: the library picks a reference itself; compare potential differences via element voltages only
        gl = circ.ground_node
        g = l2m.get(gl)
    cd = {'components': [{'ctor': 'ground', 'id': '__g', 'nodes': [g], 'args': {}}] + net['components']}
    wa = 0.0 if family in ('dc', 'complex') else w
    refd = netsolve.reference_from_ref(circdesc.ref_network(cd, wa, W_RES), {c['id']: c['ctor'] for c in net['components']})
    if refd is None:
        ctx.count('set_aside_ill_posed')
        return
    if refd['kappa'] > netsolve.KAPPA_MAX:
        ctx.count('set_aside_ill_conditioned')
        return
    sol = call(DCSolution, circ) if family == 'dc' else call(ComplexSolution, circuit=circ, w=wa, peak_values=True)
    if raised(sol):
        ctx.violation(f'{prefix}/solution-raised/{sol.key}', f'solving the translated circuit raised {sol.text}', {})
        return
    rep = refd['rep']
    tol = refd['tol'] * 8
    for c in net['components']:
        v, i = call(sol.get_voltage, c['id']), call(sol.get_current, c['id'])
        if raised(v) or raised(i):
            bad = v if raised(v) else i
            ctx.violation(f'{prefix}/query-raised/{bad.key}', bad.text, {})
            return
        ev, ei = rep['V'][c['id']], rep['I'][c['id']]
        if family == 'dc':
            ev, ei = complex(ev.real), complex(ei.real)
        # orientation of the translated component vs the model's
        lc = next(x for x in circ.components if x.id == c['id'])
        flip = -1 if (l2m[lc.nodes[0]], l2m[lc.nodes[1]]) == (c['nodes'][1], c['nodes'][0]) and c['nodes'][0] != c['nodes'][1] else 1
        if abs(complex(v) - flip * ev) > tol * refd['s_phi'] or abs(complex(i) - flip * ei) > tol * refd['s_i']:
            ctx.violation(f'{prefix}/solution-differs/{c["ctor"]}', f'{c["id"]!r}: V={complex(v)!r} I={complex(i)!r}, the depicted netlist gives V={flip * ev!r} I={flip * ei!r}', {})
            return
    for mn, name in net['names'].items():
        p = call(sol.get_potential, name)
        ep = rep['phi'][mn] if family != 'dc' else complex(rep['phi'][mn].real)
        if raised(p) or abs(complex(p) - ep) > tol * refd['s_phi']:
            ctx.violation(f'{prefix}/labelled-potential-differs', f'potential({name!r}) = {p!r}, depicted netlist gives {ep!r}', {})
            return
    ctx.count('solutions_compared')


def judge_one(ctx, prefix, prog, family, w, tname, base_canon=None):
    net = D.intended_netlist(prog)
    if base_canon is not None and canonical(net) != base_canon:
        ctx.count('transform_skipped_changes_depicted_netlist')
        return None
    if not well_separated(prog):
        ctx.count('transform_skipped_points_too_close')
        return None
    from CircuitCalculator.SimpleCircuit.DiagramTranslator import circuit_translator
    d = call(D.build, prog)
    if raised(d):
        ctx.violation(f'{prefix}/drawing-construction-raised/{d.key}', f'building the drawing raised {d.text}', {})
        return net
    if not D.geometry_ok(prog, d):
        if not prog.get('chain'):
            ctx.count('set_aside_schemdraw_did_not_honour_endpoints')
            return net
        # chained placement uses directions and lengths that every symbol can realise (steps >= 1.5 units): a symbol that does not
        # end where its length says is the library's own placement code at work, and the drawing is then judged as it stands
        ctx.count('chained_drawings_with_displaced_symbols')
    if (len(prog['symbols']) + len(tname)) % 2 == 0:
        # a drawing is normally rendered before it is analysed (leaving a `with Schematic()` block draws it): rendering must not
        # change what it depicts
        r = call(d.draw, show=False)
        ctx.count('drawings_rendered_before_translation')
        try:
            import matplotlib.pyplot as plt
            plt.close('all')
        except Exception:
            pass
        if raised(r):
            ctx.violation(f'{prefix}/rendering-raised/{r.key}', f'drawing the schematic raised {r.text}', {})
            return net
    if tname == 'base' and len(prog['symbols']) % 4 == 0:
        # the unknown-symbol rule: a part that is not one of the library's symbols (a plain schemdraw resistor, diode ...) cannot be
        # read as a netlist element; the translation refuses the drawing instead of dropping the part
        import schemdraw.elements as raw
        d2 = call(D.build, prog)
        if not raised(d2):
            part = [raw.Resistor, raw.Diode, raw.Capacitor, raw.SourceV][len(prog['symbols']) // 4 % 4]
            r2 = call(lambda: (d2.add(part().at((97.0, 89.0)).right()), circuit_translator(d2))[1])
            ctx.count('drawings_with_a_foreign_part')
            if not raised(r2):
                ctx.violation(f'{prefix}/foreign-part-accepted', f'a drawing containing a plain schemdraw {part.__name__} was translated to {len(r2.components)} components instead of being refused', {})
    circ = call(circuit_translator, d)
    ctx.count('drawings_translated'); ctx.count(f'transform_{tname}')
    if raised(circ):
        syms = sorted({s['sym'] for s in prog['symbols']})
        ctx.violation(f'{prefix}/translation-raised/{circ.key}', f'circuit_translator raised {circ.text} (symbols {syms!r})', {})
        return net
    l2m = compare_structure(ctx, prefix, circ, net, tname, rounding_boundary(prog))
    if l2m is not None:
        solve_and_compare(ctx, prefix, circ, net, l2m, 'dc' if family == 'net' else family, w, tname)
        if family == 'net':
            # a netlist drawing with sinusoidal or periodic sources is also solved at one of their frequencies: amplitude AND phase
            # (entered as cosine or sine reference, in radians or degrees) have to arrive in the circuit
            fs = sorted({c['args']['w'] for c in net['components'] if c['ctor'].startswith(('ac_', 'periodic_')) and c['args'].get('w', 0) > 0})
            if fs:
                ctx.count('netlist_drawings_solved_at_a_source_frequency')
                solve_and_compare(ctx, prefix + '/at-source-frequency', circ, net, l2m, 'ac', fs[len(prog['symbols']) % len(fs)], tname)
        if rounding_boundary(prog):
            ctx.count('set_aside_parser_clause_on_rounding_boundary')      # the recorded known mechanism; judged by compare_structure above
        else:
            parser_and_network_clause(ctx, prefix, d, circ, net, l2m, family)
    return net


def parser_and_network_clause(ctx, prefix, d, circ, net, l2m, family):
    """(a) SchematicDiagramParser(d).ground_label names the node the ground symbol sits on; (b) the direct drawing -> Network
    translation (network_translator) of a drawing made of its symbol subset is the depicted netlist too"""
    from CircuitCalculator.SimpleCircuit.DiagramParser import SchematicDiagramParser
    from CircuitCalculator.SimpleCircuit.DiagramTranslator import network_translator
    from CircuitCalculator.Network.NodalAnalysis.bias_point_analysis import nodal_analysis_bias_point_solver
    if net['ground'] is not None:
        gl = call(lambda: SchematicDiagramParser(d).ground_label)
        ctx.count('ground_labels_checked')
        if raised(gl):
            ctx.violation(f'{prefix}/ground-label/raised/{gl.key}', f'SchematicDiagramParser(d).ground_label raised {gl.text}', {})
        elif l2m.get(gl) != net['ground']:
            ctx.violation(f'{prefix}/ground-label/not-the-grounded-node', f'ground_label = {gl!r} (depicted node {l2m.get(gl)!r}) but the ground symbol sits on {net["ground"]!r}', {})
    if family != 'net':
        return
    nw = call(network_translator, d)
    ctx.count('network_translations')
    if raised(nw):
        ctx.violation(f'{prefix}/network-translator/raised/{nw.key}', f'network_translator raised {nw.text}', {})
        return
    got = sorted(b.id for b in nw.branches)
    want = sorted(c['id'] for c in net['components'])
    if got != want:
        ctx.violation(f'{prefix}/network-translator/branch-set', f'branches {got!r}, depicted components {want!r}', {})
        return
    for b in nw.branches:
        c = next(x for x in net['components'] if x['id'] == b.id)
        if b.node1 not in l2m or b.node2 not in l2m or sorted((l2m[b.node1], l2m[b.node2])) != sorted(c['nodes']):
            ctx.violation(f'{prefix}/network-translator/terminals', f'{b.id!r} between {b.node1!r},{b.node2!r} (depicted nodes {l2m.get(b.node1)!r},{l2m.get(b.node2)!r}); the drawing shows it between {c["nodes"]!r}', {})
            return
    g = net['ground']
    if g is not None and l2m.get(nw.node_zero_label) != g:
        ctx.violation(f'{prefix}/network-translator/reference-node', f'reference node {nw.node_zero_label!r} is not the grounded node', {})
        return
    gm = g if g is not None else l2m.get(nw.node_zero_label)
    cd = {'components': [{'ctor': 'ground', 'id': '__g', 'nodes': [gm], 'args': {}}] + net['components']}
    refd = netsolve.reference_from_ref(circdesc.ref_network(cd, 0.0, W_RES), {c['id']: c['ctor'] for c in net['components']})
    if refd is None or refd['kappa'] > netsolve.KAPPA_MAX:
        ctx.count('set_aside_ill_posed')
        return
    sol = call(nodal_analysis_bias_point_solver, nw)
    if raised(sol):
        ctx.violation(f'{prefix}/network-translator/solver-raised/{sol.key}', sol.text, {})
        return
    rep, tol = refd['rep'], refd['tol'] * 8
    for b in nw.branches:
        c = next(x for x in net['components'] if x['id'] == b.id)
        flip = -1 if (l2m[b.node1], l2m[b.node2]) == (c['nodes'][1], c['nodes'][0]) and c['nodes'][0] != c['nodes'][1] else 1
        v = call(sol.get_voltage, b.id)
        if raised(v) or abs(complex(v) - flip * rep['V'][c['id']]) > tol * refd['s_phi']:
            ctx.violation(f'{prefix}/network-translator/solution-differs/{c["ctor"]}', f'{b.id!r}: V = {v!r} across ({b.node1!r},{b.node2!r}); the depicted netlist gives {flip * rep["V"][c["id"]]!r}', {})
            return
    for lab, mn in l2m.items():
        p = call(sol.get_potential, lab)
        if raised(p) or abs(complex(p) - rep['phi'][mn]) > tol * refd['s_phi']:
            ctx.violation(f'{prefix}/network-translator/potential-differs', f'potential({lab!r}) = {p!r}, depicted netlist gives {rep["phi"][mn]!r}', {})
            return
    ctx.count('network_translations_compared')


def judge_incremental(ctx, prefix, prog, family, w):
    """the same Schematic object translated while it is being built: first with a part of the symbols, then completed"""
    from CircuitCalculator.SimpleCircuit import Elements as elm
    from CircuitCalculator.SimpleCircuit.DiagramTranslator import circuit_translator
    import copy
    n = len(prog['symbols'])
    if n < 4:
        return
    k = max(2, n // 2)
    d = elm.Schematic(unit=prog['unit'], show=False)
    first = call(_add_symbols, d, prog, prog['symbols'][:k])
    if raised(first):
        return
    call(circuit_translator, d)                              # intermediate translation; its result may be anything (partial drawing)
    rest = call(_add_symbols, d, prog, prog['symbols'][k:])
    if raised(rest):
        return
    d._vmon_placed = first + rest
    if not D.geometry_ok(prog, d):
        return
    circ = call(circuit_translator, d)
    ctx.count('incremental_drawings')
    net = D.intended_netlist(prog)
    if raised(circ):
        ctx.violation(f'{prefix}/incremental/translation-raised/{circ.key}', f'translating a drawing that had been translated at an earlier stage raised {circ.text}', {})
        return
    l2m = compare_structure(ctx, prefix + '/incremental', circ, net, 'incremental', rounding_boundary(prog))
    if l2m is not None:
        solve_and_compare(ctx, prefix + '/incremental', circ, net, l2m, 'dc' if family == 'net' else family, w, 'incremental')


def _add_symbols(d, prog, symbols):
    sub = dict(prog); sub['symbols'] = symbols
    tmp = D.build(sub, into=d)
    return list(tmp._vmon_placed)


def judge(case, ctx, prefix='C13'):
    prog, family, w = case['program'], case['family'], case['w']
    rng = random.Random(case['tseed'])
    net = D.intended_netlist(prog)
    base_canon = canonical(net)
    syms = sorted(s['sym'] for s in prog['symbols'] if s['sym'] not in ('Line',))
    nwires = sum(1 for s in prog['symbols'] if s['sym'] == 'Line')
    nt = len(net['components']) >= 2 and any(c['ctor'].endswith('source') for c in net['components'])
    ctx.sample(case)
    if any(c['nodes'][0] == c['nodes'][1] for c in net['components']):
        ctx.count('drawings_with_bridged_component')
    if prog.get('chain'):
        ctx.count('drawings_with_chained_placement')
    judge_one(ctx, prefix, prog, family, w, 'base')
    ctx.evaluated(repr((syms, min(nwires, 6), 'base')), nt)
    transforms = [
        ('rot90', D.rotated(prog, 1)), ('rot180', D.rotated(prog, 2)), ('rot270', D.rotated(prog, 3)),
        ('translated', D.translated(prog, rng.choice([12.34, -7.5, 100.0, 0.005]), rng.choice([-3.21, 8.0, 0.33]))),
        ('rescaled', D.rescaled(prog, rng.choice([1.25, 1.5, 2.5, 7.0]), rng.choice([1.0, 3, 5]))),
        ('wires-split', D.wires_split(rng, prog)), ('reordered', D.reordered(rng, prog)),
        ('combined', D.reordered(rng, D.wires_split(rng, D.translated(D.rotated(prog, rng.randint(1, 3)), 4.44, -9.0)))),
    ]
    rng.shuffle(transforms)
    if not rounding_boundary(prog) and well_separated(prog):
        judge_incremental(ctx, prefix, prog, family, w)
    for tname, p2 in transforms[:3]:
        judge_one(ctx, prefix, p2, family, w, tname, base_canon)
        ctx.evaluated(repr((syms, min(nwires, 6), tname)), nt)


def guards(m, tier):
    c = m['counters']
    r = []
    q = tier == 'quick'
    for k, need in (('drawings_translated', 400), ('structures_matched', 350), ('solutions_compared', 180), ('ground_labels_checked', 200), ('network_translations_compared', 25)):
        need = need if q else need * 15
        if c.get(k, 0) < need:
            r.append(f'{k} = {c.get(k, 0)} (<{need})')
    for k in ('transform_rot90', 'transform_rot180', 'transform_rot270', 'transform_translated', 'transform_rescaled', 'transform_wires-split', 'transform_reordered'):
        if c.get(k, 0) < 15:
            r.append(f'{k} = {c.get(k, 0)}')
    return r
