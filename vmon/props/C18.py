"""C18 - displayed numbers are accurate to the stated precision."""
from __future__ import annotations
import cmath, math, random, re
from decimal import Decimal
import numpy as np
from ..ref import numparse
from ..ref.numparse import ParseError
from ..observe import call, raised

TITLE = "C18 rendered numbers parse back to the value within half a unit of the p-th significant digit"
LEVEL = 'exploration'
EXHAUSTIVE = {'quick': False, 'thorough': False}
RULE = ("ScientificFloat: EVERY p-digit decimal mantissa (p<=2 in quick plus a 1/5 sample of p=3; all of p<=3 in thorough plus samples of "
        "p=4..6) x every decade 1e-15..1e15 x the value and its two binary64 neighbours x both signs x without prefixes and with each of the "
        "6 prefix tables used by the display helpers; random binary64 values elsewhere; ScientificComplex in all four quadrants with parts of "
        "very different magnitude, cartesian/polar/degree/compact; every Display.print_* helper. Oracle: independent decimal parser "
        "(exact Decimal arithmetic on the exact binary value). Non-trivial: finite non-zero value; distinct by (precision, table, decade, "
        "mantissa class).")
ASSUMPTIONS = [
    "range rule in the weakest reading: a value is inside the range when its engineering exponent 3*floor(e/3) lies within the prefix table in force (|e3| <= 15 without prefixes); inside -> must be finite and accurate; outside -> infinity sign or a still-accurate finite number",
    "a mantissa that renders as 1000 after a rounding carry is accepted (counted)",
    "a complex part may be suppressed only when it is exactly zero or below the representable range",
    "print_active_reactive_power may omit a reactive power of at most 1e-4 var (the helper's noise floor, the counterpart of the 1e-4 rad / 0.01 degree floor for angles) or one that is negligible at the displayed precision of |S| (a relative floor); the helper is outside the observe points of C18",
]
TABLES = {
    'none': None,
    'display': {-6: 'u', -3: 'm', 3: 'k'},
    'hertz': {-3: 'm', 3: 'k', 6: 'M', 9: 'G', 12: 'T'},
    'default': {-12: 'p', -9: 'n', -6: 'u', -3: 'm', -1: 'c', 3: 'k', 6: 'M', 9: 'G', 12: 'T'},
    'ohm': {-3: 'm', 3: 'k', 6: 'M', 9: 'G'},
    'farad': {-12: 'p', -9: 'n', -6: 'μ', -3: 'm'},
    'henry': {-9: 'n', -6: 'μ', -3: 'm'},
}


def table_range(tbl):
    ks = [k for k in tbl if k % 3 == 0]
    return min(ks), max(ks)


def generate(tier, seed, shard, nshards):
    rng = random.Random(f'C18/{seed}/{shard}')
    jobs = []
    for p in (1, 2, 3):
        for d in range(-15, 16):
            for tname in TABLES:
                jobs.append((p, d, tname))
    rng2 = random.Random(f'C18/{seed}')
    rng2.shuffle(jobs)
    for k, (p, d, tname) in enumerate(jobs):
        if k % nshards != shard:
            continue
        lo, hi = 10 ** (p - 1), 10 ** p
        if p == 3 and tier == 'quick':
            ms = sorted(rng.sample(range(lo, hi), 180))
        else:
            ms = list(range(lo, hi))
        yield {'kind': 'float-exhaustive', 'p': p, 'decade': d, 'table': tname, 'mantissas': [ms[0], ms[-1], len(ms)], 'ms': ms}
    # rounding-carry stratum: values just below a power of ten that round UP into the next decade at p digits, and short mantissas padded with zeros, p = 1..15
    cj = [(pp, d, tname) for pp in range(1, 16) for d in range(-15, 16) for tname in TABLES]
    rng2.shuffle(cj)
    for k, (pp, d, tname) in enumerate(cj):
        if k % nshards == shard and (tier == 'thorough' or k % 3 == 0 or d in (-1, 0, 1)):
            yield {'kind': 'float-carry', 'p': pp, 'decade': d, 'table': tname}
    n_rand = {'quick': 40, 'thorough': 900}[tier]
    for _ in range(n_rand // nshards + 1):
        yield {'kind': 'float-random', 'p': rng.randint(1, 6), 'table': rng.choice(list(TABLES)), 'seed': rng.getrandbits(32)}
    for _ in range({'quick': 16, 'thorough': 320}[tier] // nshards + 1):      # the statement says every p >= 1: precisions 7..12
        yield {'kind': 'float-random', 'p': rng.randint(7, 12), 'table': rng.choice(list(TABLES)), 'seed': rng.getrandbits(32)}
    n_c = {'quick': 60, 'thorough': 1200}[tier]
    for _ in range(n_c // nshards + 1):
        yield {'kind': 'complex', 'p': rng.randint(1, 6), 'table': rng.choice(list(TABLES)), 'seed': rng.getrandbits(32),
               'polar': rng.random() < 0.4, 'deg': rng.random() < 0.5, 'compact': rng.random() < 0.5}
    for _ in range({'quick': 30, 'thorough': 500}[tier] // nshards + 1):
        yield {'kind': 'display', 'p': rng.randint(1, 6), 'seed': rng.getrandbits(32)}
    for _ in range({'quick': 16, 'thorough': 320}[tier] // nshards + 1):      # complex values and the display helpers at precisions 7..12
        yield {'kind': 'complex', 'p': rng.randint(7, 12), 'table': rng.choice(list(TABLES)), 'seed': rng.getrandbits(32),
               'polar': rng.random() < 0.4, 'deg': rng.random() < 0.5, 'compact': rng.random() < 0.5}
        yield {'kind': 'display', 'p': rng.randint(7, 12), 'seed': rng.getrandbits(32)}


# ------------------------------------------------------------------------------------------------------------------
def judge_real(ctx, prefix, text, value, p, unit, tbl, where, use_prefix=True):
    """value: float that the text is supposed to denote.  Returns True if accepted."""
    ctx.count('strings_judged')
    if raised(text):
        ctx.violation(f'{prefix}/{where}/raised/{text.key}', f'rendering {value!r} (p={p}) raised {text.text}', {})
        return False
    try:
        pr = numparse.parse_real(text, unit, tbl if use_prefix else None)
    except ParseError as e:
        ctx.violation(f'{prefix}/{where}/unparsable', f'{value!r} (p={p}, table={tbl!r}) rendered as {text!r}: {e}', {})
        return False
    d = Decimal(value)
    e = d.adjusted()
    hu = Decimal(5).scaleb(e - p)
    rounded = (abs(d) + hu)                    # may carry into the next decade
    e_r = rounded.adjusted()
    if use_prefix and tbl:
        lo, hi = table_range(tbl)
    else:
        lo, hi = -15, 15
    def inside(ee):
        e3 = 3 * math.floor(ee / 3)
        return lo <= e3 <= hi
    # a value within the comparison slack of a rounding tie may legitimately be rounded either way: the carry outcome counts too
    ins, ins_r = inside(e), inside(e_r) and inside((rounded + abs(d) * Decimal('1e-12')).adjusted())
    if pr.infinite:
        if ins and ins_r:
            # classify the mechanism: the library compares the exponent of the p-digit INTEGER mantissa (e - p + 1) with the largest prefix
            e_c = (rounded + abs(d) * Decimal('1e-12')).adjusted()      # at a rounding tie the library may have carried
            mech = 'integer-mantissa-exponent-above-largest-prefix' if (max(e_r, e_c) - p + 1) > hi else 'other'
            ctx.violation(f'{prefix}/inside-range-rendered-infinite/{mech}',
                          f'{value!r} (p={p}, prefixes={tbl if use_prefix else None!r}) rendered as {text!r} although its engineering exponent {3 * math.floor(e / 3)} is representable', {})
            return False
        if (pr.infinite > 0) != (value > 0):
            ctx.violation(f'{prefix}/{where}/infinity-sign', f'{value!r} rendered as {text!r}', {})
            return False
        ctx.count('saturated_outside_range')
        return True
    err = abs(pr.value - d)
    slack = abs(d) * Decimal('1e-12')
    if err > hu + slack:
        cls = 'inside-range' if (ins and ins_r) else 'outside-range'
        ctx.violation(f'{prefix}/{where}/inaccurate/{cls}',
                      f'{value!r} (p={p}, prefixes={tbl if use_prefix else None!r}) rendered as {text!r} = {pr.value}, off by {err} > half unit {hu}', {})
        return False
    ctx.maxstat('max_error_in_half_units', float(err / hu))
    if pr.exponent % 3 != 0:
        ctx.violation(f'{prefix}/{where}/exponent-not-multiple-of-3', f'{value!r} rendered as {text!r} (exponent {pr.exponent})', {})
        return False
    am = abs(pr.mantissa)
    if not (Decimal(1) <= am <= Decimal(1000)):
        ctx.violation(f'{prefix}/{where}/mantissa-out-of-range', f'{value!r} (p={p}) rendered as {text!r}: mantissa {pr.mantissa}', {})
        return False
    if am == 1000:
        ctx.count('carry_rendered_1000')
    if (pr.mantissa < 0) != (value < 0) and pr.mantissa != 0:
        ctx.violation(f'{prefix}/{where}/sign', f'{value!r} rendered as {text!r}', {})
        return False
    return True


_NT = [0]


def as_number_type(value):
    """every 4th value is handed over as the number type a caller may equally well use: a Python int (integral values), numpy.float64,
    numpy.int64 (integral values)"""
    _NT[0] += 1
    k = _NT[0] % 12
    integral = float(value).is_integer() and abs(value) < 2 ** 53
    if k == 3 and integral:
        return int(value)
    if k == 7:
        return np.float64(value)
    if k == 11 and integral:
        return np.int64(int(value))
    return value


def render_float(value, p, unit, tbl):
    return _render_float(as_number_type(value), p, unit, tbl)     # an exception for an int / numpy value is reported like any other


def _render_float(value, p, unit, tbl):
    from CircuitCalculator.Utils import ScientificFloat
    if tbl is None:
        return call(lambda: str(ScientificFloat(value, unit, p)))
    return call(lambda: str(ScientificFloat(value, unit, p, True, dict(tbl))))


def judge(case, ctx, prefix='C18'):
    k = case['kind']
    if k == 'float-exhaustive':
        p, dcd, tname = case['p'], case['decade'], case['table']
        tbl = TABLES[tname]
        for m in case['ms']:
            base = float(f'{m}e{dcd - p + 1}')
            for v in (base, float(np.nextafter(base, math.inf)), float(np.nextafter(base, -math.inf))):
                for sg in (1, -1):
                    val = sg * v
                    judge_real(ctx, prefix, render_float(val, p, 'V', tbl), val, p, 'V', tbl, 'float', tbl is not None)
        ctx.evaluated(repr((p, dcd, tname)), True)
        if p == 1 and dcd in (0, 3):
            ctx.sample({'p': p, 'decade': dcd, 'table': tname, 'example': str(render_float(float(f'{case["ms"][0]}e{dcd}'), p, 'V', tbl))})
        return
    if k == 'float-carry':
        p, dcd, tname = case['p'], case['decade'], case['table']
        tbl = TABLES[tname]
        vals = []
        for extra in (1, 2, 3, 6):                                  # 0.99..9 x 10^(dcd+1) with p+extra nines: rounds up to 10^(dcd+1)
            vals.append(float(f'{"9" * (p + extra)}e{dcd + 1 - p - extra}'))
        tie = float(f'{"9" * p}5e{dcd - p}')                          # the rounding tie itself and its binary neighbours
        vals += [tie, float(np.nextafter(tie, math.inf)), float(np.nextafter(tie, -math.inf))]
        vals.append(float(f'{"9" * p}4e{dcd - p}'))                   # just below the tie: must NOT carry
        one = float(f'1e{dcd + 1}')
        vals += [float(np.nextafter(one, -math.inf)), one]
        vals += [float(f'{m}e{dcd}') for m in (2, 5, 1.5, 1.25, 9)]           # short mantissas padded with zeros up to p digits
        for v in vals:
            for sg in (1, -1):
                judge_real(ctx, prefix, render_float(sg * v, p, 'V', tbl), sg * v, p, 'V', tbl, 'float', tbl is not None)
                ctx.count('carry_values_judged')
        ctx.evaluated(repr(('carry', p, dcd, tname)), True)
        return
    rng = random.Random(case['seed'])
    p, tname = case['p'], case.get('table', 'none')
    tbl = TABLES.get(tname)
    if k == 'float-random':
        for _ in range(400):
            v = rng.choice([1, -1]) * 10 ** rng.uniform(-15, 15)
            if rng.random() < 0.3:
                v = float(f'{v:.{rng.randint(0, 8)}e}')
            judge_real(ctx, prefix, render_float(v, p, 'A', tbl), v, p, 'A', tbl, 'float', tbl is not None)
        ctx.evaluated(repr(('rand', p, tname, case['seed'] % 50)), True)
        return
    if k == 'complex':
        return judge_complex(case, ctx, prefix, rng, p, tbl)
    if k == 'display':
        return judge_display(case, ctx, prefix, rng, p)


CPLX = re.compile(r'^(?P<rs>-? ?)(?P<re>[^j]*?)(?P<is> ?[+-] ?)?(?:j(?P<im>.*))?$', re.S)


def split_complex(text):
    """-> (real_text or None, real_negative, imag_text or None, imag_negative)"""
    t = text
    if 'j' not in t:
        neg = t.startswith('-')
        return t.lstrip('- ').strip(), neg, None, False
    left, im = t.split('j', 1)
    left_s = left.rstrip()
    if left_s == '' or left_s in ('-', '+'):
        return None, False, im, left_s == '-'
    ineg = left_s.endswith('-')
    if not (left_s.endswith('-') or left_s.endswith('+')):
        raise ParseError(f'{text!r}: no sign between real and imaginary part')
    re_txt = left_s[:-1].strip()
    rneg = re_txt.startswith('-')
    return re_txt.lstrip('- ').strip(), rneg, im, ineg


def part_suppressible(x, other, p, tbl, use_prefix):
    """weakest reading: zero, below the representable range, or invisible at the displayed precision of the number"""
    if x == 0:
        return True
    e = Decimal(abs(x)).adjusted()
    lo = table_range(tbl)[0] if (use_prefix and tbl) else -15
    if 3 * math.floor(e / 3) < lo:
        return True
    if other != 0 and Decimal(abs(x)) <= numparse.half_unit(abs(other), p):
        return True
    return False


def suppression_mechanism(x, p, tbl, use_prefix):
    """the library treats a part as zero when the exponent of its p-digit integer mantissa is below the smallest prefix"""
    e = (Decimal(abs(x)) + numparse.half_unit(abs(x), p)).adjusted()
    lo = table_range(tbl)[0] if (use_prefix and tbl) else -16
    return 'integer-mantissa-exponent-below-smallest-prefix' if (e - p + 1) < lo else 'other'


def judge_complex_text(ctx, prefix, text, z, p, unit, tbl, polar, deg, where, use_prefix=True):
    ctx.count('complex_strings_judged')
    if raised(text):
        ctx.violation(f'{prefix}/{where}/raised/{text.key}', f'rendering {z!r} raised {text.text}', {})
        return
    try:
        if polar:
            if '∠' in text:
                mag_t, ang_t = text.split('∠', 1)
                ang = float(ang_t.rstrip('°'))
                if deg != ang_t.endswith('°'):
                    raise ParseError(f'{text!r}: degree sign does not match the deg option')
            else:
                mag_t, ang = text, None
            if not judge_real(ctx, prefix, mag_t, abs(z), p, unit, tbl, where + '/magnitude', use_prefix):
                return
            true_ang = math.degrees(cmath.phase(z)) if deg else cmath.phase(z)
            unit_last = 1e-2 if deg else 1e-4
            if ang is None:
                if abs(true_ang) > unit_last * 1.0000001:
                    ctx.violation(f'{prefix}/{where}/angle-omitted', f'{z!r} rendered as {text!r} although the angle is {true_ang!r}', {})
            elif abs(ang - true_ang) > unit_last / 2 * 1.0001 + 1e-12:
                ctx.violation(f'{prefix}/{where}/angle-inaccurate', f'{z!r} rendered as {text!r}: angle {ang!r}, true {true_ang!r}', {})
            return
        re_t, rneg, im_t, ineg = split_complex(text)
    except (ParseError, ValueError) as e:
        ctx.violation(f'{prefix}/{where}/unparsable', f'{z!r} rendered as {text!r}: {e}', {})
        return
    for nm, txt, neg, x in (('real', re_t, rneg, z.real), ('imag', im_t, ineg, z.imag)):
        if txt is None or txt == '':
            if not part_suppressible(x, z.imag if nm == 'real' else z.real, p, tbl, use_prefix):
                ctx.violation(f'{prefix}/part-suppressed/{suppression_mechanism(x, p, tbl, use_prefix)}', f'{z!r} (p={p}, prefixes={tbl if use_prefix else None!r}) rendered as {text!r}: the {nm} part {x!r} is representable but missing', {})
                return
            continue
        if x == 0:
            continue
        if neg != (x < 0):
            ctx.violation(f'{prefix}/{where}/part-sign/{nm}', f'{z!r} rendered as {text!r}', {})
            return
        if not judge_real(ctx, prefix, txt, abs(x), p, unit, tbl, where + '/' + nm, use_prefix):
            return


def judge_complex(case, ctx, prefix, rng, p, tbl):
    from CircuitCalculator.Utils import ScientificComplex
    polar, deg, compact = case['polar'], case['deg'], case['compact']
    for _ in range(120):
        mag = 10 ** rng.uniform(-9, 9)
        r = rng.random()
        if r < 0.5:
            z = cmath.rect(mag, rng.uniform(-math.pi, math.pi))
        elif r < 0.8:      # parts of very different magnitude
            a, b = mag, mag * 10 ** rng.uniform(-8, -1)
            z = complex(rng.choice([1, -1]) * a, rng.choice([1, -1]) * b) if rng.random() < 0.5 else complex(rng.choice([1, -1]) * b, rng.choice([1, -1]) * a)
        else:
            z = complex(rng.choice([1, -1]) * mag, 0.0) if rng.random() < 0.5 else complex(0.0, rng.choice([1, -1]) * mag)
        if tbl is None:
            txt = call(lambda: str(ScientificComplex(z, 'Ω', p, False, compact, polar, deg)))
        else:
            txt = call(lambda: str(ScientificComplex(z, 'Ω', p, True, compact, polar, deg, dict(tbl))))
        judge_complex_text(ctx, prefix, txt, z, p, 'Ω', tbl, polar, deg, 'complex-polar' if polar else 'complex', tbl is not None)
    ctx.evaluated(repr(('cplx', p, polar, deg, compact, case['seed'] % 40)), True)


SIN = re.compile(r'^(?P<amp>.+?)·(?P<fn>cos|sin)\((?P<two>2π·)?(?P<w>.+?)·t(?:(?P<sg>[+-])(?P<ph>.+?))?\)$', re.S)


def parse_sinusoid(text, unit, p):
    """'A·cos(w·t±phi)' or plain 'A' (w = 0).  -> dict(amp_text, fn, hertz, w_text, phase (float or 0), phase_text)"""
    m = SIN.match(text)
    if not m:
        return {'amp': text, 'fn': None}
    return {'amp': m.group('amp'), 'fn': m.group('fn'), 'hertz': bool(m.group('two')), 'w': m.group('w'), 'sg': m.group('sg'), 'ph': m.group('ph')}


def judge_sinusoid_text(ctx, prefix, text, value, unit, p, w, sin, deg, hertz, where):
    """value: complex amplitude A e^{j phi}: the text must denote |A| cos(w t + phi) (or sin form)."""
    if raised(text):
        ctx.violation(f'{prefix}/{where}/raised/{text.key}', text.text, {})
        return
    tbl = TABLES['display']
    q = parse_sinusoid(text, unit, p)
    if w == 0:
        # |A| cos(0 t + phi) is the constant Re(value): the text must denote it, sign included
        if q['fn'] is not None:
            ctx.violation(f'{prefix}/{where}/dc-rendered-as-oscillation', f'{text!r}', {})
            return
        ctx.count('sinusoid_dc_labels_judged')
        re = complex(value).real
        if abs(re) >= 1e-3 * abs(value):       # (a constant that is a rounding residue of a 90 degree phase is not judged)
            judge_real(ctx, prefix, text, re, p, unit, tbl, where + '/dc-value')
        return
    if not judge_real(ctx, prefix, q['amp'], abs(value), p, unit, tbl, where + '/amplitude'):
        return
    if q['fn'] is None or (q['fn'] == 'sin') != bool(sin) or q['hertz'] != bool(hertz):
        ctx.violation(f'{prefix}/{where}/wrong-form', f'{text!r} for w={w!r}, sin={sin}, hertz={hertz}', {})
        return
    if hertz:
        ok = judge_real(ctx, prefix, q['w'], w / 2 / math.pi, p, 'Hz', TABLES['hertz'], where + '/frequency')
    else:
        ok = judge_real(ctx, prefix, q['w'], w, p, '/s', None, where + '/frequency', False)
    if not ok:
        return
    ph_true = cmath.phase(value) + (-math.pi / 2 if sin else 0)        # A cos(wt+phi) = A sin(wt + phi + pi/2)
    if sin:
        ph_true = cmath.phase(value) + math.pi / 2
    # the printed phase may differ from the true one by whole turns
    if q['ph'] is None:
        ph_print = 0.0
    else:
        try:
            pr = numparse.parse_real(q['ph'], '°' if deg else '', None)
        except ParseError as e:
            ctx.violation(f'{prefix}/{where}/phase-unparsable', f'{text!r}: {e}', {})
            return
        ph_print = float(pr.value) * (1 if q['sg'] == '+' else -1)
        if deg:
            ph_print = math.radians(ph_print)
    diff = (ph_print - ph_true + math.pi) % (2 * math.pi) - math.pi
    lim = 0.5 * 10 ** (math.floor(math.log10(max(abs(math.degrees(ph_true)) if deg else abs(ph_true), 1e-4))) - p + 1)
    if deg:
        lim = math.radians(lim)
    lim = max(lim, 1.01e-4)
    ctx.count('sinusoid_phases_judged')
    if abs(diff) > lim * 1.01 + 1e-12:
        ctx.violation(f'{prefix}/{where}/phase-inaccurate/{"sin" if sin else "cos"}', f'{text!r} for phasor {value!r} (sin={sin}, deg={deg}): printed phase {ph_print!r} rad, true {ph_true!r} rad', {})


def judge_display(case, ctx, prefix, rng, p):
    from CircuitCalculator.SimpleCircuit import Display as dsp
    for _ in range(60):
        mag = 10 ** rng.uniform(-7, 7)
        z = cmath.rect(mag, rng.uniform(-math.pi, math.pi))
        x = rng.choice([1, -1]) * mag
        T = TABLES
        judge_real(ctx, prefix, call(dsp.print_real, complex(x), 'V', p), x, p, 'V', T['display'], 'print_real')
        judge_real(ctx, prefix, call(dsp.print_abs, z, 'A', p), abs(z), p, 'A', T['display'], 'print_abs')
        polar, deg = rng.random() < 0.5, rng.random() < 0.5
        judge_complex_text(ctx, prefix, call(dsp.print_complex, z, 'V', p, polar, deg), z, p, 'V', T['display'], polar, deg, 'print_complex')
        judge_complex_text(ctx, prefix, call(dsp.print_resistance, abs(x), p), complex(abs(x)), p, 'Ω', T['ohm'], False, False, 'print_resistance')
        judge_complex_text(ctx, prefix, call(dsp.print_conductance, abs(x), p), complex(abs(x)), p, 'S', T['ohm'], False, False, 'print_conductance')
        judge_complex_text(ctx, prefix, call(dsp.print_impedance, z, p), z, p, 'Ω', T['ohm'], False, False, 'print_impedance')
        c = 10 ** rng.uniform(-12, -2)
        judge_real(ctx, prefix, call(dsp.print_capacitance, c, p), c, p, 'F', T['farad'], 'print_capacitance')
        l = 10 ** rng.uniform(-9, 0)
        judge_real(ctx, prefix, call(dsp.print_inductance, l, p), l, p, 'H', T['henry'], 'print_inductance')
        pw = call(dsp.print_active_power, x, p)
        if raised(pw) or not (pw.endswith('↓') or pw.endswith('↑')) or (pw.endswith('↓') != (x > 0)):
            ctx.violation(f'{prefix}/print_active_power/direction', f'{x!r} rendered as {pw!r}', {})
        else:
            judge_real(ctx, prefix, pw[:-1], abs(x), p, 'W', T['default'], 'print_active_power')
        # active/reactive power label: 'P: <arrow><P>' and, unless |Q| is at most the helper's 1e-4 var noise floor, a second line 'Q: <arrow><Q>'
        s_ = z if rng.random() < 0.7 else complex(z.real, rng.choice([1, -1]) * 10 ** rng.uniform(-6, -2))
        pq = call(dsp.print_active_reactive_power, s_, p)
        ctx.count('active_reactive_labels_judged')
        if raised(pq):
            ctx.violation(f'{prefix}/print_active_reactive_power/raised/{pq.key}', f'{s_!r} raised {pq.text}', {})
        else:
            lines = pq.split('\n')
            okf = lines[0].startswith('P: ') and len(lines[0]) > 4 and lines[0][3] in '↓↑' and len(lines) <= 2 and (len(lines) == 1 or (lines[1].startswith('Q: ') and len(lines[1]) > 4 and lines[1][3] in '↓↑'))
            if not okf:
                ctx.violation(f'{prefix}/print_active_reactive_power/format', f'{s_!r} rendered as {pq!r}', {})
            else:
                if (lines[0][3] == '↓') != (s_.real > 0):
                    ctx.violation(f'{prefix}/print_active_reactive_power/direction/active', f'{s_!r} rendered as {pq!r}', {})
                else:
                    judge_real(ctx, prefix, lines[0][4:], abs(s_.real), p, 'W', T['default'], 'print_active_reactive_power/active')
                if len(lines) == 1:
                    # omitted Q: at most the helper's absolute noise floor (1e-4 var, what the code does), or negligible at the displayed
                    # precision of the apparent power (what a relative floor would do) - the helper is outside the observe list of C18
                    if abs(s_.imag) > 1e-4 * (1 + 1e-9) and abs(s_.imag) > abs(s_) * 10.0 ** (-p):
                        ctx.violation(f'{prefix}/print_active_reactive_power/reactive-part-missing', f'{s_!r} rendered as {pq!r}: Q = {s_.imag!r} var is not shown', {})
                elif (lines[1][3] == '↓') != (s_.imag > 0):
                    ctx.violation(f'{prefix}/print_active_reactive_power/direction/reactive', f'{s_!r} rendered as {pq!r}', {})
                else:
                    judge_real(ctx, prefix, lines[1][4:], abs(s_.imag), p, 'var', T['default'], 'print_active_reactive_power/reactive')
        w = rng.choice([0.0, 10 ** rng.uniform(-1, 5), 10 ** rng.uniform(-3, 11)])      # up to the GHz range (the hertz table goes to T)
        sin, dg, hz = rng.random() < 0.5, rng.random() < 0.5, rng.random() < 0.5
        judge_sinusoid_text(ctx, prefix, call(dsp.print_sinosoidal, z, 'V', p, w, sin, dg, hz), z, 'V', p, w, sin, dg, hz, 'print_sinosoidal')
    ctx.evaluated(repr(('display', p, case['seed'] % 40)), True)


def guards(m, tier):
    c = m['counters']
    r = []
    need = 60000 if tier == 'quick' else 1000000
    if c.get('strings_judged', 0) < need:
        r.append(f"only {c.get('strings_judged', 0)} strings judged (<{need})")
    if c.get('complex_strings_judged', 0) < 2000:
        r.append(f"only {c.get('complex_strings_judged', 0)} complex strings judged")
    return r
