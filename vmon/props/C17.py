"""C17 - loading describes exactly what was written, without side effects."""
from __future__ import annotations
import cmath, copy, json, math, os, random, tempfile
from .. import purity
from ..observe import call, raised
from ..oracles import branchlaw

TITLE = "C17 loaders build exactly the described elements; complex notations agree; JSON/YAML round trips; no mutation of the description"
LEVEL = 'exploration'
RULE = ("generated descriptions for all 12 kinds of the network loader table and all 10 kinds of the circuit loader table (finite values, "
        "negative/zero/many-turn phases, Cartesian and polar notation, degree option), mixed lists of 1-6 entries loaded 1-3 times from "
        "the SAME object; nested documents (depth <= 4, dicts, lists of scalars, lists of dicts, empty containers, complex numbers "
        "anywhere) through serialize/deserialize and dump/load in JSON and YAML. Oracle: independent reading of the description + deep "
        "fingerprints before/after. Non-trivial: >=1 entry / >=1 complex number; distinct by (kind, notation, format, nesting shape).")
ASSUMPTIONS = [
    "expected element values are computed from the description by the monitor (polar -> abs*e^{j phase}), compared through the element protocol (Z, Y, V, I) at 1e-12 relative",
    "round trips compare structure exactly and numbers at 1e-15 relative (text formats print shortest round-trip floats)",
]
N = {'quick': {'net': 2700, 'circ': 1500, 'doc': 1500, 'cplx': 1200}, 'thorough': {'net': 16000, 'circ': 9000, 'doc': 9000, 'cplx': 6000}}
NET_KINDS = ['resistor', 'conductor', 'impedance', 'admittance', 'linear_current_source', 'current_source', 'real_current_source',
             'linear_voltage_source', 'voltage_source', 'real_voltage_source', 'short_circuit', 'open_circuit']
CIRC_KINDS = ['resistor', 'conductance', 'impedance', 'admittance', 'dc_voltage_source', 'ac_voltage_source', 'complex_voltage_source',
              'dc_current_source', 'ac_current_source', 'complex_current_source']


def rnd_complex(rng):
    mag = 10 ** rng.uniform(-3, 3)
    ph = rng.choice([0.0, math.pi, -math.pi / 2, rng.uniform(-math.pi, math.pi), rng.uniform(-20, 20)])
    return mag, ph


def cplx_dict(rng, notation=None):
    """-> (dict, complex value it denotes)"""
    mag, ph = rnd_complex(rng)
    z = cmath.rect(mag, ph)
    notation = notation or rng.choice(['cart', 'polar'])
    if notation == 'cart':
        return {'real': z.real, 'imag': z.imag}, complex(z.real, z.imag)
    return {'abs': mag, 'phase': ph}, mag * complex(math.cos(ph), math.sin(ph))


def _val(rng):
    """positive value over six decades; one in six is written as an integer ("R": 470), as JSON documents usually are"""
    x = 10 ** rng.uniform(-2, 4)
    if x >= 1 and rng.random() < 0.17:
        return int(round(x))
    return x


def net_entry(rng, kind, eid, n1, n2):
    e = {'type': kind, 'id': eid, 'N1': n1, 'N2': n2}
    ref = {'id': eid, 'n1': n1, 'n2': n2}
    v = lambda: _val(rng)
    if kind == 'resistor':
        e['R'] = v(); ref.update(kind='Z', Z=e['R'])
    elif kind == 'conductor':
        e['G'] = 1 / v(); ref.update(kind='Y', Y=e['G'])
    elif kind == 'impedance':
        e['Z'], z = cplx_dict(rng); ref.update(kind='Z', Z=[z.real, z.imag])
    elif kind == 'admittance':
        e['Y'], z = cplx_dict(rng); ref.update(kind='Y', Y=[z.real, z.imag])
    elif kind == 'linear_current_source':
        e['I'], i = cplx_dict(rng); e['Y'], y = cplx_dict(rng)
        ref.update(kind='LI', I=[i.real, i.imag], Y=[y.real, y.imag])
    elif kind == 'current_source':
        e['I'], i = cplx_dict(rng); ref.update(kind='I', I=[i.real, i.imag])
        if rng.random() < 0.4:                   # the optional inner admittance, a plain number that is passed through to the element
            e['Y'] = rng.choice([1 / v(), int(rng.randint(1, 5))]); ref.update(kind='LI', Y=e['Y'])
    elif kind == 'real_current_source':
        e['I'] = rng.choice([1, -1]) * v()
        if rng.random() < 0.5:
            e['Y'] = 1 / v(); ref.update(kind='LI', I=e['I'], Y=e['Y'])
        else:
            ref.update(kind='I', I=e['I'])
    elif kind == 'linear_voltage_source':
        e['V'], u = cplx_dict(rng); e['Z'], z = cplx_dict(rng)
        ref.update(kind='LV', V=[u.real, u.imag], Z=[z.real, z.imag])
    elif kind == 'voltage_source':
        e['V'], u = cplx_dict(rng); ref.update(kind='V', V=[u.real, u.imag])
        if rng.random() < 0.4:                   # the optional inner impedance, a plain number
            e['Z'] = rng.choice([v(), int(rng.randint(1, 5))]); ref.update(kind='LV', Z=e['Z'])
    elif kind == 'real_voltage_source':
        e['V'] = rng.choice([1, -1]) * v()
        if rng.random() < 0.5:
            e['Z'] = v(); ref.update(kind='LV', V=e['V'], Z=e['Z'])
        else:
            ref.update(kind='V', V=e['V'])
    elif kind == 'short_circuit':
        ref.update(kind='short')
    elif kind == 'open_circuit':
        ref.update(kind='open')
    return e, ref


def circ_entry(rng, kind, cid, n1, n2):
    """-> (description dict, expected (type, id, nodes, value dict))"""
    v = lambda: _val(rng)
    v0 = lambda: 0.0 if rng.random() < 0.1 else v()                 # exactly zero is a valid finite value of R, G, V, I
    g0 = lambda: rng.choice([0.0, 0]) if rng.random() < 0.1 else 1 / v()
    s = rng.choice([1, -1])
    if kind == 'resistor':
        val = {'R': v0()}; exp = dict(val)
    elif kind == 'conductance':
        val = {'G': g0()}; exp = dict(val)
    elif kind == 'impedance':
        z = complex(v(), s * v()); val = {'Z': z}; exp = {'R': z.real, 'X': z.imag}
    elif kind == 'admittance':
        y = complex(1 / v(), s / v()); val = {'Y': y}; exp = {'G': y.real, 'B': y.imag}
    elif kind == 'dc_voltage_source':
        val = {'V': s * v0()}; exp = {'V': val['V'], 'R': 0, 'w': 0, 'phi': 0}
        if rng.random() < 0.5:
            val['R'] = v0(); exp['R'] = val['R']
    elif kind == 'ac_voltage_source':
        val = {'V': s * v(), 'w': v(), 'phi': rng.uniform(-7, 7)}; exp = {'V': val['V'], 'R': 0, 'w': val['w'], 'phi': val['phi']}
        if rng.random() < 0.25:                    # a sinusoid that does not oscillate is still V cos(phi): the phase is part of the value
            val['w'] = 0; exp['w'] = 0
        if rng.random() < 0.5:
            val['R'] = v(); exp['R'] = val['R']
    elif kind == 'complex_voltage_source':
        u = complex(s * v(), v()); val = {'V': u}; exp = {'V_real': u.real, 'V_imag': u.imag, 'R': 0.0, 'X': 0.0}
        if rng.random() < 0.5:
            z = complex(v(), v()); val['Z'] = z; exp.update(R=z.real, X=z.imag)
    elif kind == 'dc_current_source':
        val = {'I': s * v0()}; exp = {'I': val['I'], 'G': 0, 'w': 0, 'phi': 0}
        if rng.random() < 0.5:
            val['G'] = g0(); exp['G'] = val['G']
    elif kind == 'ac_current_source':
        val = {'I': s * v(), 'w': v(), 'phi': rng.uniform(-7, 7)}; exp = {'I': val['I'], 'G': 0, 'w': val['w'], 'phi': val['phi']}
        if rng.random() < 0.25:
            val['w'] = 0; exp['w'] = 0
        if rng.random() < 0.5:
            val['G'] = 1 / v(); exp['G'] = val['G']
    elif kind == 'complex_current_source':
        i = complex(s * v(), v()); val = {'I': i}; exp = {'I_real': i.real, 'I_imag': i.imag, 'G': 0.0, 'B': 0.0}
        if rng.random() < 0.5:
            y = complex(1 / v(), 1 / v()); val['Y'] = y; exp.update(G=y.real, B=y.imag)
    desc = {'type': kind, 'id': cid, 'nodes': [n1, n2], 'value': val}
    return desc, (kind, cid, (n1, n2), exp)


def rnd_doc(rng, depth=0):
    """nested document with complex numbers anywhere"""
    r = rng.random()
    if depth >= 3 or r < 0.25:
        c = rng.random()
        if c < 0.35:
            mag, ph = rnd_complex(rng)
            return cmath.rect(mag, ph)
        if c < 0.5:
            return rng.choice([0.5, -3.25, 1e-7, 12345.678])
        if c < 0.65:
            return rng.randint(-5, 5)
        if c < 0.8:
            return rng.choice(['abc', '', 'Ω', 'real', '1e3', '2E5'])          # texts that look like numbers to some YAML readers, not to this one
        if c < 0.9:
            return rng.choice([True, False, None])
        return rng.choice([[], {}])
    if r < 0.31:
        # a mapping that merely has the KEYS of a complex notation (a spectrum stored as two lists, two texts, two complex numbers ...):
        # it denotes no complex number and has to come back as it is
        keys = rng.choice([('real', 'imag'), ('abs', 'phase'), ('abs', 'phase_deg')])
        def part():
            c = rng.random()
            if c < 0.35:
                return [rng.choice([0.0, 0.5, -2.0, 1.0]) for _ in range(rng.randint(0, 3))]
            if c < 0.55:
                return rng.choice(['Re{Z}', '', '1.5'])
            if c < 0.75:
                return cmath.rect(*rnd_complex(rng))
            if c < 0.9:
                return {'unit': 'V', 'n': rng.randint(0, 3)}
            return None
        a, b = part(), part()
        if isinstance(a, (int, float)) and isinstance(b, (int, float)):
            a = [a]
        return {keys[0]: a, keys[1]: b}
    if r < 0.65:
        return {rng.choice(['a', 'b', 'value', 'Z', 'x1', 'list', 'n']) + str(k): rnd_doc(rng, depth + 1) for k in range(rng.randint(1, 4))}
    return [rnd_doc(rng, depth + 1) for _ in range(rng.randint(0, 4))]


def generate(tier, seed, shard, nshards):
    rng = random.Random(f'C17/{seed}/{shard}')
    n = N[tier]
    k = shard
    for _ in range(n['net'] // nshards):
        m = rng.randint(1, 6)
        nodes = rng.sample(['0', '1', '2', 'a', 'b', 'gnd', 'n1'], 3)
        entries, refs = [], []
        for j in range(m):
            kind = NET_KINDS[k % len(NET_KINDS)] if j == 0 else rng.choice(NET_KINDS)
            k += 1
            a, b = rng.sample(nodes, 2)
            if j == 0:
                a = '0'
            e, r = net_entry(rng, kind, f'E{j}', a, b)
            entries.append(e); refs.append(r)
        yield {'kind': 'net', 'entries': entries, 'refs': refs, 'loads': rng.randint(1, 3), 'via_file': rng.random() < 0.3}
    for _ in range(n['circ'] // nshards):
        m = rng.randint(1, 5)
        comps, exps = [], []
        for j in range(m):
            kind = CIRC_KINDS[k % len(CIRC_KINDS)] if j == 0 else rng.choice(CIRC_KINDS)
            k += 1
            d, e = circ_entry(rng, kind, f'K{j}', rng.choice(['0', 'a']), rng.choice(['b', 'c']))
            comps.append(_jsonify(d)); exps.append(_jsonify(list(e)))
        yield {'kind': 'circ', 'components': comps, 'expected': exps, 'loads': rng.randint(1, 3)}
    for _ in range(n['doc'] // nshards):
        d = rnd_doc(rng)
        if not isinstance(d, dict):
            d = {'root': d}
        variant = rng.choice(['plain', 'plain', 'numpy-complex', 'dict-subclass', 'mixed-keys'])
        fmt = 'json' if variant == 'numpy-complex' else (rng.choice(['yaml', 'yml']) if variant == 'mixed-keys' else rng.choice(['json', 'yaml', 'yml']))
        yield {'kind': 'doc', 'doc': _jsonify(d), 'format': fmt, 'via_file': rng.random() < 0.3, 'variant': variant}
    for _ in range(n['cplx'] // nshards):
        mag, ph = rnd_complex(rng)
        yield {'kind': 'cplx', 'abs': mag, 'phase': ph}


def _jsonify(x):
    """complex -> {'__c__': [re, im]} so that cases stay JSON-able; _restore undoes it"""
    if isinstance(x, complex):
        return {'__c__': [x.real, x.imag]}
    if isinstance(x, dict):
        return {k: _jsonify(v) for k, v in x.items()}
    if isinstance(x, (list, tuple)):
        return [_jsonify(v) for v in x]
    return x


def _restore(x):
    if isinstance(x, dict):
        if set(x) == {'__c__'}:
            return complex(*x['__c__'])
        return {k: _restore(v) for k, v in x.items()}
    if isinstance(x, list):
        return [_restore(v) for v in x]
    return x


def same_doc(a, b, path=''):
    """structural equality with numeric tolerance 1e-15 relative; returns None or the path of the first difference"""
    if isinstance(a, bool) or isinstance(b, bool) or a is None or b is None or isinstance(a, str) or isinstance(b, str):
        return None if (type(a) is type(b) and a == b) else f'{path}: {a!r} != {b!r}'
    if isinstance(a, (int, float, complex)) and isinstance(b, (int, float, complex)):
        if isinstance(a, complex) != isinstance(b, complex):
            return f'{path}: {a!r} != {b!r} (type)'
        return None if abs(a - b) <= 1e-15 * max(abs(a), abs(b)) else f'{path}: {a!r} != {b!r}'
    if isinstance(a, dict) and isinstance(b, dict):
        if list(a.keys()) != list(b.keys()) and sorted(map(str, a)) != sorted(map(str, b)):
            return f'{path}: keys {list(a)!r} != {list(b)!r}'
        for k in a:
            r = same_doc(a[k], b[k], f'{path}/{k}')
            if r:
                return r
        return None
    if isinstance(a, list) and isinstance(b, list):
        if len(a) != len(b):
            return f'{path}: length {len(a)} != {len(b)}'
        for i, (x, y) in enumerate(zip(a, b)):
            r = same_doc(x, y, f'{path}[{i}]')
            if r:
                return r
        return None
    return f'{path}: {type(a).__name__} != {type(b).__name__}'


def judge(case, ctx, prefix='C17'):
    return {'net': judge_net, 'circ': judge_circ, 'doc': judge_doc, 'cplx': judge_cplx}[case['kind']](case, ctx, prefix)


def judge_net(case, ctx, prefix):
    from CircuitCalculator.Network import loaders
    entries = copy.deepcopy(case['entries'])          # ONE object, loaded repeatedly
    before = purity.fp(entries)
    kinds = [e['type'] for e in case['entries']]
    ctx.evaluated(repr((kinds[0], sorted(set(kinds)), case['loads'], case['via_file'],
                        tuple(sorted(k for e in case['entries'] for k, v in e.items() if isinstance(v, dict) and 'abs' in v)))), True)
    ctx.count('network_descriptions')
    ctx.sample({'entries': case['entries'], 'loads': case['loads']})
    results = []
    for k in range(case['loads']):
        if case['via_file'] and k == 0:
            with tempfile.TemporaryDirectory() as td:
                os.makedirs(os.path.join(td, 'proj.d'), exist_ok=True)
                fn = os.path.join(td, 'proj.d', 'net.v2.json')          # dots in the directory and in the stem: only the last suffix is the format
                with open(fn, 'w') as f:
                    json.dump(entries, f)
                net = call(loaders.load_network_from_json, fn)
        else:
            net = call(loaders.load_network, entries)
        if raised(net):
            culprit = sorted(set(kinds))
            first = 'first-load' if k == 0 else 'repeated-load'
            which = kinds[0] if len(set(kinds)) == 1 else 'mixed'
            ctx.violation(f'{prefix}/network-loader/raised/{first}/{net.type}', f'load #{k + 1} of kinds {kinds!r} raised {net.text} at {net.where}', {'kinds': culprit})
            break
        results.append(net)
        ctx.count('network_loads')
        if len(net.branches) != len(case['refs']):
            ctx.violation(f'{prefix}/network-loader/branch-count', f'{len(net.branches)} branches for {len(case["refs"])} entries', {})
            break
        for b, r, e in zip(net.branches, case['refs'], case['entries']):
            if (b.id, b.node1, b.node2) != (r['id'], r['n1'], r['n2']):
                ctx.violation(f'{prefix}/network-loader/identity/{e["type"]}', f'entry {e!r} loaded as id={b.id!r} nodes=({b.node1!r},{b.node2!r})', {})
                break
            why = branchlaw.check_element(b.element, {**r}, rel=1e-12)
            if why:
                ctx.violation(f'{prefix}/network-loader/value/{e["type"]}', f'entry {e!r}: {why}', {})
                break
            ctx.count('network_elements_checked')
    if purity.fp(entries) != before:
        changed = [e0['type'] for e0, e1 in zip(case['entries'], entries) if purity.fp(e0) != purity.fp(e1)]
        ctx.violation(f'{prefix}/network-loader/description-mutated', f'load_network changed the description it was given (entries of kinds {sorted(set(changed))!r}); e.g. {entries[0]!r}', {})
    if len(results) >= 2 and any(repr(results[0]) != repr(r) for r in results[1:]):
        ctx.violation(f'{prefix}/network-loader/repeated-load-differs', 'two loads of the same description object gave different networks', {})


def judge_circ(case, ctx, prefix):
    from CircuitCalculator.Circuit import dump_load as cdl
    comps = _restore(case['components'])
    doc = {'components': comps}
    before = purity.fp(doc)
    kinds = [c['type'] for c in comps]
    ctx.evaluated(repr(('circ', kinds[0], sorted(set(kinds)), case['loads'])), True)
    ctx.count('circuit_descriptions')
    res = []
    for k in range(case['loads']):
        circ = call(cdl.undictify_circuit, doc)
        if raised(circ):
            ctx.violation(f'{prefix}/circuit-loader/raised/{"first-load" if k == 0 else "repeated-load"}/{circ.type}', f'undictify_circuit of kinds {kinds!r} raised {circ.text}', {})
            break
        res.append(circ)
        for comp, exp in zip(circ.components, _restore(case['expected'])):
            et, eid, enodes, eval_ = exp
            got_val = dict(comp.value)
            ok = comp.type == et and comp.id == eid and tuple(comp.nodes) == tuple(enodes) and set(got_val) == set(eval_) and \
                all(abs(got_val[q] - eval_[q]) <= 1e-12 * max(abs(eval_[q]), 1e-300) for q in eval_)
            ctx.count('circuit_components_checked')
            if not ok:
                ctx.violation(f'{prefix}/circuit-loader/component/{et}', f'loaded {comp!r}, expected type={et!r} id={eid!r} nodes={enodes!r} value={eval_!r}', {})
                break
        single = call(cdl.generate_component, comps[0])
        if raised(single) or single != circ.components[0]:
            ctx.violation(f'{prefix}/circuit-loader/generate-component-differs', f'{single!r} vs {circ.components[0]!r}', {})
    if purity.fp(doc) != before:
        ctx.violation(f'{prefix}/circuit-loader/description-mutated', 'undictify_circuit changed the description it was given', {})
    if len(res) >= 2 and any(r.components != res[0].components for r in res[1:]):
        ctx.violation(f'{prefix}/circuit-loader/repeated-load-differs', '', {})


def has_complex(x):
    if isinstance(x, complex):
        return True
    if isinstance(x, dict):
        return any(has_complex(v) for v in x.values())
    if isinstance(x, list):
        return any(has_complex(v) for v in x)
    return False


def shape(x, d=0):
    if isinstance(x, dict):
        return 'D(' + ','.join(sorted({shape(v, d + 1) for v in x.values()})) + ')' if d < 3 else 'D'
    if isinstance(x, list):
        return 'L(' + ','.join(sorted({shape(v, d + 1) for v in x})) + ')' if d < 3 else 'L'
    return type(x).__name__[0]


def _as_variant(x, variant, depth=0):
    """the same document held in other standard containers / scalar types: numpy complex scalars (what every solver returns) or
    dict subclasses (OrderedDict, defaultdict)"""
    import collections
    import numpy as np
    if isinstance(x, dict):
        items = [(k, _as_variant(v, variant, depth + 1)) for k, v in x.items()]
        if variant == 'mixed-keys':
            # YAML mappings may be keyed by numbers as well as by strings (node numbers, harmonic orders)
            return {(j if j % 2 else k): v for j, (k, v) in enumerate(items)}
        if variant == 'dict-subclass':
            if depth % 2 == 0:
                return collections.OrderedDict(items)
            dd = collections.defaultdict(list)
            dd.update(items)
            return dd
        return dict(items)
    if isinstance(x, list):
        return [_as_variant(v, variant, depth + 1) for v in x]
    if isinstance(x, complex) and variant == 'numpy-complex':
        return np.complex128(x)
    return x


def judge_doc(case, ctx, prefix):
    from CircuitCalculator import dump_load as dl
    doc = _restore(case['doc'])
    if case.get('variant', 'plain') != 'plain':
        doc = _as_variant(doc, case['variant'])
        ctx.count('documents_' + case['variant'])
    fmt = case['format']
    orig = copy.deepcopy(doc)
    before = purity.fp(doc)
    ctx.evaluated(repr((shape(doc), fmt, case['via_file'])), has_complex(doc))
    ctx.count('documents'); ctx.count(f'documents_{fmt}')
    lists_of_scalars = 'L(' in shape(doc) and any(s in shape(doc) for s in ('L(f', 'L(i', 'L(s', 'L(c', 'L(b', 'L(N'))
    feature = ('complex' if has_complex(doc) else 'no-complex') + ('+list' if 'L' in shape(doc) else '')
    if case['via_file']:
        with tempfile.TemporaryDirectory() as td:
            os.makedirs(os.path.join(td, 'proj.d'), exist_ok=True)
            fn = os.path.join(td, 'proj.d', 'doc.v2.' + fmt)            # dots in the directory and in the stem: only the last suffix is the format
            r = call(dl.dump, fn, doc)
            back = call(dl.load, fn) if not raised(r) else r
    else:
        txt = call(dl.serialize, doc, fmt)
        back = call(dl.deserialize, txt, fmt) if not raised(txt) else txt
    if raised(back):
        stage = 'serialize' if ('serialize' in back.where or 'dump' in back.where or 'dictify' in back.where or back.where == 'outside-repo') and 'undictify' not in back.where and 'deserialize' not in back.where else 'deserialize'
        ctx.violation(f'{prefix}/round-trip/raised/{fmt if fmt == "json" else "yaml"}/{stage}/{back.type}/{feature}', f'{fmt} round trip of {orig!r} raised {back.text} at {back.where}', {})
    else:
        diff = same_doc(orig, back)
        if diff:
            ctx.violation(f'{prefix}/round-trip/differs/{fmt if fmt == "json" else "yaml"}/{feature}', f'{fmt} round trip changed the document at {diff}', {'original': repr(orig)[:500], 'reloaded': repr(back)[:500]})
    if purity.fp(doc) != before:
        ctx.violation(f'{prefix}/round-trip/document-mutated/{feature}', f'serialize/dump changed the document it was given: {orig!r} -> {doc!r}', {})
    ctx.sample({'doc': case['doc'], 'format': fmt})


def judge_cplx(case, ctx, prefix):
    from CircuitCalculator.Network import loaders
    from CircuitCalculator import dump_load as dl
    mag, ph = case['abs'], case['phase']
    z = mag * complex(math.cos(ph), math.sin(ph))
    tol = 1e-12 * mag
    ctx.evaluated(repr(('cplx', ph == 0, abs(ph) > math.pi, round(math.log10(mag)))), True)
    ctx.count('complex_notations_checked')
    forms = {
        'cartesian': call(loaders.to_complex, {'real': z.real, 'imag': z.imag}),
        'polar-rad': call(loaders.to_complex, {'abs': mag, 'phase': ph}),
    }
    dd = {'abs': mag, 'phase': math.degrees(ph)}
    dd0 = copy.deepcopy(dd)
    forms['polar-deg'] = call(loaders.to_complex, dd, True)
    if dd != dd0:
        ctx.violation(f'{prefix}/to_complex/argument-mutated', f'to_complex(degree=True) changed its argument {dd0!r} -> {dd!r}', {})
    forms['polar-deg-second-call'] = call(loaders.to_complex, dd, True)
    flat = {'c': {'real': z.real, 'imag': z.imag}, 'p': {'abs': mag, 'phase': ph}, 'd': {'abs': mag, 'phase_deg': math.degrees(ph)}}
    flat0 = copy.deepcopy(flat)
    u = call(dl.undictify_complex_values, flat)
    if flat != flat0:
        ctx.violation(f'{prefix}/undictify_complex_values/argument-mutated', f'undictify_complex_values rewrote the dictionary it was given: {flat0!r} -> {flat!r}', {})
    nested = {'entries': [{'id': 'Z1', 'Z': {'real': z.real, 'imag': z.imag}}, {'id': 'V1', 'V': {'abs': mag, 'phase': ph}}], 'inner': {'y': {'real': 1.0, 'imag': -z.imag}}}
    nested0 = copy.deepcopy(nested)
    un = call(dl.undictify_all_complex_values, nested)
    if nested != nested0:
        ctx.violation(f'{prefix}/undictify_all_complex_values/argument-mutated', f'undictify_all_complex_values rewrote the description it was given: {nested0!r} -> {nested!r}', {})
    elif not raised(un):
        again = call(dl.undictify_all_complex_values, nested)
        if raised(again) or again != un:
            ctx.violation(f'{prefix}/undictify_all_complex_values/repeated-load-differs', f'{un!r} vs {again!r}', {})
        if raised(un) or un['entries'][0]['Z'] != z or abs(un['entries'][1]['V'] - z) > tol:
            ctx.violation(f'{prefix}/undictify_all_complex_values/wrong-value', f'{un!r}', {})
    cplx_doc = {'a': z, 'b': 2.5}
    cplx0 = dict(cplx_doc)
    dz = call(dl.dictify_complex_values, cplx_doc)
    if cplx_doc != cplx0:
        ctx.violation(f'{prefix}/dictify_complex_values/argument-mutated', f'dictify_complex_values rewrote the dictionary it was given: {cplx0!r} -> {cplx_doc!r}', {})
    if raised(u):
        ctx.violation(f'{prefix}/undictify_complex_values/raised/{u.type}', u.text, {})
    else:
        forms.update({'undictify-cartesian': u['c'], 'undictify-polar': u['p'], 'undictify-degree': u['d']})
    import json as _json
    import yaml as _yaml
    for fmt, dump in (('json', _json.dumps), ('yaml', lambda d: _yaml.safe_dump(d))):
        for nm, doc in (('polar-rad', {'list': [{'V': {'abs': mag, 'phase': ph}}]}), ('polar-deg', {'V': {'abs': mag, 'phase_deg': math.degrees(ph)}})):
            got = call(dl.deserialize, dump(doc), fmt)       # a hand-written file whose complex numbers are all polar
            v = got if raised(got) else (got['list'][0]['V'] if 'list' in got else got['V'])
            if raised(v) or isinstance(v, (complex, int, float)):
                forms[f'text-{fmt}-{nm}'] = v
            else:
                ctx.violation(f'{prefix}/complex-notation/not-converted/text-{fmt}-{nm}', f'{fmt} text {dump(doc)!r} was read as {got!r}: the polar notation was not turned into a number', {})
            ctx.count('polar_only_text_documents')
    for nm, v in forms.items():
        if raised(v):
            ctx.violation(f'{prefix}/complex-notation/raised/{nm}/{v.type}', v.text, {})
        elif abs(complex(v) - z) > tol * (8 if 'deg' in nm else 1):
            ctx.violation(f'{prefix}/complex-notation/differs/{nm}', f'{nm} notation of {z!r} (abs={mag!r}, phase={ph!r}) gives {v!r}', {})
    for bad in ({'abs': mag}, {'real': 1.0}, {'phase': 1.0}, 5.0, {}):
        r = call(loaders.to_complex, copy.deepcopy(bad))
        if not raised(r):
            ctx.violation(f'{prefix}/complex-notation/incomplete-accepted', f'to_complex({bad!r}) returned {r!r}', {})


def guards(m, tier):
    c = m['counters']
    r = []
    q = tier == 'quick'
    for k, need in (('network_descriptions', 600), ('circuit_descriptions', 300), ('documents', 300), ('documents_json', 80), ('documents_yaml', 80), ('complex_notations_checked', 250)):
        need = need if q else need * 12
        if c.get(k, 0) < need:
            r.append(f'{k} = {c.get(k, 0)} (<{need})')
    return r
