"""C12 - transient simulation solves the circuit's differential equations."""
from __future__ import annotations
import math, random
import numpy as np
from ..gen import networks as G
from .. import circdesc
from ..oracles import netsolve, dynamics
from ..ref import transient as reftr
from ..observe import call, raised
from .C10 import dyn_circuit, order_class

TITLE = "C12 TransientSolution: rest start, KCL per sample, C dv/dt and L di/dt, exactness for piecewise-linear inputs, settling"
LEVEL = 'exploration'
RULE = ("non-degenerate RLC + ideal-source circuits (C10 generator, hostile names) with per-source different piecewise-linear inputs "
        "(one-sample ramp + hold, ramp, triangle, pulse; breakpoints on the grid; different amplitudes per source so that an input-"
        "order mix-up is visible) on uniform grids with |lambda|max*h <= 0.5; monitors: rest start, KCL at every node and sample, grid "
        "refinement (h vs h/2 agree), Simpson integral form of the element dynamics, an independent trapezoidal-companion-model "
        "reference with Richardson extrapolation, settling to the exact DC solution for held inputs. Non-trivial: >=1 reactive "
        "element, response not identically zero; distinct by (circuit signature, input shapes, order class).")
ASSUMPTIONS = [
    "grid chosen from the eigenvalues of the library's own A (used only to size the grid, never as truth)",
    "independent reference: trapezoidal companion models on a float tableau, Richardson-extrapolated (h/4, h/8); accepted when its own two runs agree to 1e-3, compared at 2e-3 of the signal maximum",
    "settling is restated as agreement within 1e-6 after 30 slowest time constants (only for strictly stable circuits)",
]
N_CASE = {'quick': 1000, 'thorough': 12000}
SHAPES = ['ramp-hold', 'ramp', 'triangle', 'pulse', 'constant', 'step-down']     # the last two are non-zero at the very first sample


def make_input(spec, h, t0=0.0):
    """piecewise-linear function of ABSOLUTE time with breakpoints on the coarse grid (which starts at t0)"""
    pts = [(t0 + k * h, v) for k, v in spec['points']]
    ts = np.array([p[0] for p in pts]); vs = np.array([p[1] for p in pts])
    return lambda t: np.interp(np.asarray(t, dtype=float), ts, vs)


def transient_case(rng, settle=None):
    cd = dyn_circuit(rng, max_nodes=5)
    if cd is None:
        return None
    n = rng.choice([120, 200, 320])
    inputs = {}
    srcs = [c for c in cd['components'] if c['ctor'].endswith('source')]
    levels = rng.sample([1.0, -2.0, 3.0, 0.5, -0.7, 5.0], len(srcs))
    settle = rng.random() < 0.35 if settle is None else settle
    for c, lv in zip(srcs, levels):
        shape = 'ramp-hold' if settle else rng.choice(SHAPES)
        k1 = rng.randint(1, 6)
        if shape == 'ramp-hold':
            pts = [(0, 0.0), (k1, lv), (n, lv)]
        elif shape == 'ramp':
            pts = [(0, 0.0), (n, lv)]
        elif shape == 'triangle':
            k2 = rng.randint(k1 + 2, n // 2)
            pts = [(0, 0.0), (k1, 0.0), (k2, lv), (2 * k2 - k1, 0.0), (n, 0.0)]
        elif shape == 'constant':
            pts = [(0, lv), (n, lv)]                       # switched on before the grid starts: u(t[0]) != 0, states still start at rest
        elif shape == 'step-down':
            k2 = rng.randint(k1 + 2, n // 2)
            pts = [(0, lv), (k2, lv), (k2 + 1, 0.0), (n, 0.0)]
        else:
            k2 = rng.randint(k1 + 2, n // 2)
            pts = [(0, 0.0), (k1, 0.0), (k1 + 1, lv), (k2, lv), (k2 + 1, 0.0), (n, 0.0)]
        inputs[c['id']] = {'shape': shape, 'points': pts, 'level': lv}
    # the time axis need not start at zero: t0 is given in units of the step
    case = {'circuit': cd, 'n': n, 'inputs': inputs, 'settle': settle, 't0_steps': rng.choice([0, 0, 0, 37, 1000, 12.5, -20, -1000.5])}     # a circuit at rest has no preferred time origin
    if rng.random() < 0.15:
        # the time grid handed over as an INTEGER array (np.arange(0, N)): the circuit's time scale is chosen so that the step is 2
        case['integer_grid'] = True
        case['t0_steps'] = rng.choice([0, 0, 37, 1000, -50])
    return case


N_STEADY = {'quick': 320, 'thorough': 3200}


def generate(tier, seed, shard, nshards):
    rng = random.Random(f'C12/{seed}/{shard}')
    for _ in range(N_CASE[tier] // nshards):
        c = transient_case(rng)
        if c is not None:
            yield c
            if rng.random() < 0.3:
                from .C10 import swept
                yield {**c, 'circuit': swept(rng, c['circuit']), 'sweep_of_previous': True}
    for _ in range(N_STEADY[tier] // nshards):
        cd = dyn_circuit(rng, max_nodes=4)
        if cd is None:
            continue
        srcs = [c['id'] for c in cd['components'] if c['ctor'].endswith('source')]
        yield {'kind': 'steady', 'circuit': cd,
               'drive': {sid: {'A': rng.choice([1.0, -2.0, 0.5, 3.0]), 'phi': rng.choice([0.0, rng.uniform(-3.1, 3.1)]), 'wsel': rng.random()} for sid in srcs}}


def judge_steady(case, ctx, prefix):
    """sinusoidal inputs (each source its own frequency): after the natural response has died out the simulated waveforms equal
    the multi-frequency steady state  sum_s Re(X_s(j w_s) A_s e^{j phi_s} e^{j w_s t})  of the exact phasor references"""
    from CircuitCalculator.Circuit.solution import TransientSolution
    from .C10 import build_models
    from ..oracles import netsolve
    cd = case['circuit']
    ok, _ = dynamics.non_degenerate(cd)
    if not ok:
        ctx.count('set_aside_degenerate')
        return
    built = call(build_models, cd)
    if raised(built):
        ctx.violation(f'{prefix}/model-construction-raised/{built.key}', built.text, {})
        return
    circ = built[0]
    ev = np.linalg.eigvals(built[2].A)
    if not ev.size or not np.all(np.isfinite(ev)) or np.max(ev.real) >= 0:
        ctx.count('steady_set_aside_not_strictly_stable')
        return
    lam_max, lam_slow = float(np.max(np.abs(ev))), float(np.min(-ev.real))
    if lam_max / lam_slow > 60 or dynamics.construction_kappa(cd) > 1e6:
        ctx.count('steady_set_aside_stiff_or_ill_conditioned')
        return
    drive = {sid: {**d, 'w': lam_slow * (lam_max / lam_slow) ** d['wsel']} for sid, d in case['drive'].items()}
    w_hi, w_lo = max(d['w'] for d in drive.values()), min(d['w'] for d in drive.values())
    h = min(0.5 / lam_max, 0.02 / w_hi)
    t_settle, t_obs = 34.0 / lam_slow, 2 * 2 * np.pi / w_lo
    n = int(np.ceil((t_settle + t_obs) / h))
    if n > 120000:
        ctx.count('steady_set_aside_too_many_steps')
        return
    tin = np.arange(n + 1) * h
    fns = {sid: (lambda d: (lambda t: d['A'] * np.cos(d['w'] * np.asarray(t, dtype=float) + d['phi'])))(d) for sid, d in drive.items()}
    sol = call(TransientSolution, circuit=circ, tin=tin, input=fns)
    if raised(sol):
        ctx.violation(f'{prefix}/steady/simulation-raised/{sol.key}', sol.text, {})
        return
    comps = [c for c in cd['components'] if c['ctor'] != 'ground']
    nodes = circdesc.nodes({'components': comps})
    win = tin >= t_settle
    tw = tin[win]
    exp_phi = {nd: np.zeros(tw.size) for nd in nodes}
    exp_i = {c['id']: np.zeros(tw.size) for c in comps}
    s_phi = s_i = 0.0
    for sid, d in drive.items():
        refd = netsolve.reference_from_ref(dynamics.unit_response_network(cd, d['w'], sid))
        if refd is None or refd['kappa'] > 1e6:
            ctx.count('steady_set_aside_stiff_or_ill_conditioned')
            return
        ph = d['A'] * np.exp(1j * d['phi']) * np.exp(1j * d['w'] * tw)
        for nd in nodes:
            exp_phi[nd] += (refd['rep']['phi'][nd] * ph).real
        for c in comps:
            exp_i[c['id']] += (refd['rep']['I'][c['id']] * ph).real
        s_phi += abs(d['A']) * refd['s_phi']
        s_i += abs(d['A']) * refd['s_i']
    tol = 5 * (w_hi * h) ** 2 / 8 + 1e-6                 # the inputs are interpolated linearly between the samples
    ctx.count('steady_states_compared')
    ctx.evaluated(circdesc.signature(cd, ('steady', len(drive))), True)
    for nd in nodes:
        r = call(sol.get_potential, nd)
        if raised(r):
            ctx.violation(f'{prefix}/steady/query-raised/{r.key}', r.text, {})
            return
        e = float(np.max(np.abs(np.asarray(r[1], dtype=float).reshape(-1)[win] - exp_phi[nd])))
        ctx.maxstat('max_steady_state_error_over_scale', e / max(s_phi, 1e-300))
        if e > tol * s_phi:
            ctx.violation(f'{prefix}/steady/potential', f'potential({nd!r}) deviates from the multi-frequency steady state by {e!r} (scale {s_phi!r}) after {t_settle * lam_slow:.0f} slowest time constants', {'drive': drive})
            return
    for c in comps:
        r = call(sol.get_current, c['id'])
        if raised(r):
            ctx.violation(f'{prefix}/steady/query-raised/{r.key}', r.text, {})
            return
        e = float(np.max(np.abs(np.asarray(r[1], dtype=float).reshape(-1)[win] - exp_i[c['id']])))
        if e > tol * s_i:
            ctx.violation(f'{prefix}/steady/current/{c["ctor"]}', f'current({c["id"]!r}) deviates from the multi-frequency steady state by {e!r} (scale {s_i!r})', {'drive': drive})
            return
    ctx.sample({'circuit': cd, 'drive': drive, 'n': n})


def grid_for(cd, case):
    """h from the library's own eigenvalues (sizing only)"""
    from .C10 import build_models
    built = call(build_models, cd)
    if raised(built):
        return built
    A = built[2].A
    ev = np.linalg.eigvals(A)
    if not np.all(np.isfinite(ev)):
        return None
    lam_max = float(np.max(np.abs(ev))) if ev.size else 1.0
    lam_min_re = float(np.min(np.abs(ev.real))) if ev.size else 1.0
    if case.get('settle') and lam_min_re > 0:
        h = 40.0 / lam_min_re / case['n']
        if lam_max * h > 0.5:
            h = 0.5 / lam_max
    else:
        h = 0.5 / lam_max
    return h, lam_max, lam_min_re, ev


def run_transient(case, ctx, prefix, want=('phi', 'V', 'I'), half=False):
    """Runs the library's TransientSolution on the case's grid; returns dict of arrays or None (violation recorded / set aside)."""
    from CircuitCalculator.Circuit.solution import TransientSolution
    cd = case['circuit']
    g = grid_for(cd, case)
    if g is None:
        ctx.count('set_aside_no_grid')
        return None
    if raised(g):
        ctx.violation(f'{prefix}/model-construction-raised/{g.key}', g.text, {})
        return None
    h, lam_max, lam_min_re, ev = g
    n = case['n']
    if case.get('integer_grid'):
        # rescale every C and L by 2/h: all natural frequencies are multiplied by h/2 and the same simulation runs with step 2
        k = 2.0 / h
        cd = {'components': [({**c, 'args': {**c['args'], ('C' if c['ctor'] == 'capacitor' else 'L'): c['args']['C' if c['ctor'] == 'capacitor' else 'L'] * k}}
                              if c['ctor'] in ('capacitor', 'inductance') else c) for c in cd['components']]}
        lam_max, lam_min_re, ev, h = lam_max / k, lam_min_re / k, (ev / k if ev is not None else ev), 2.0
    circ = call(circdesc.to_lib, cd)
    if raised(circ):
        ctx.violation(f'{prefix}/valid-circuit-rejected/{circ.key}', circ.text, {})
        return None
    t0 = case.get('t0_steps', 0) * h
    fns = {sid: make_input(spec, h, t0) for sid, spec in case['inputs'].items()}
    if case.get('integer_grid'):
        t0i = 2 * int(case.get('t0_steps', 0))
        tin = (t0i + np.arange(2 * n + 1)) if half else (t0i + 2 * np.arange(n + 1))
        assert tin.dtype.kind == 'i'
    elif half:
        tin = t0 + np.arange(2 * n + 1) * (h / 2)
    else:
        tin = t0 + np.arange(n + 1) * h
    sol = call(TransientSolution, circuit=circ, tin=tin, input=fns)
    if raised(sol):
        ctx.violation(f'{prefix}/simulation-raised/{sol.key}', f'TransientSolution raised {sol.text}', {'order_class': order_class(cd)})
        return None
    lam_abs_min = float(np.min(np.abs(ev))) if ev is not None and len(ev) else lam_max
    out = {'t': None, 'phi': {}, 'V': {}, 'I': {}, 'P': {}, 'cd': cd, 'h': h, 'lam_max': lam_max, 'lam_min_re': lam_min_re, 'fns': fns, 'tin': tin,
           'stiffness': lam_max / max(lam_abs_min, 1e-300)}
    comps = [c for c in cd['components'] if c['ctor'] != 'ground']
    rs = [c['args']['R'] if c['ctor'] == 'resistor' else 1 / c['args']['G'] for c in comps if c['ctor'] in ('resistor', 'conductance')] or [1.0]
    lv_v = [abs(case['inputs'][c['id']]['level']) for c in comps if dynamics.is_vsrc(c)] or [0.0]
    lv_i = [abs(case['inputs'][c['id']]['level']) for c in comps if dynamics.is_isrc(c)] or [0.0]
    out['sig_v'] = max(max(lv_v), max(lv_i) * max(rs))
    out['sig_i'] = max(max(lv_i), max(lv_v) / min(rs))
    queries = []
    if 'phi' in want:
        queries += [('phi', nid, sol.get_potential) for nid in circdesc.nodes({'components': comps})]
    for cls, getter in (('V', sol.get_voltage), ('I', sol.get_current), ('P', sol.get_power)):
        if cls in want:
            queries += [(cls, c['id'], getter) for c in comps]
    raw = []
    for cls, ident, getter in queries:
        r = call(getter, ident)
        if raised(r):
            ctx.violation(f'{prefix}/query-raised/{r.key}', f'{cls}({ident!r}) raised {r.text}', {})
            return None
        t, y_raw = r
        y = np.array(y_raw, dtype=float).reshape(-1)           # a copy: the caller may do with a result what it likes
        if y.shape[0] != tin.shape[0] or not np.all(np.isfinite(y)):
            ctx.violation(f'{prefix}/malformed-series', f'{cls}({ident!r}): series of length {y.shape[0]} for {tin.shape[0]} samples or non-finite values', {})
            return None
        out[cls][ident] = y
        out['t'] = np.array(t, dtype=float).reshape(-1)
        raw.append(y_raw)
    # a result handed out is the caller's: overwriting it in place (unit conversion, an in-place residual) must not change what
    # the solution object answers afterwards
    scribbled = 0
    for y_raw in raw:
        if isinstance(y_raw, np.ndarray) and y_raw.flags.writeable and y_raw.size:
            y_raw[...] = 12345.678
            scribbled += 1
    if scribbled:
        ctx.count('result_arrays_overwritten_by_the_caller', scribbled)
        for cls, ident, getter in queries:
            r = call(getter, ident)
            if raised(r):
                ctx.violation(f'{prefix}/query-raised-after-results-were-overwritten/{r.key}', f'{cls}({ident!r}) raised {r.text}', {})
                return None
            y2 = np.array(r[1], dtype=float).reshape(-1)
            sc = max(float(np.max(np.abs(out[cls][ident]))), out['sig_v'] if cls != 'I' else out['sig_i'], 1e-300)
            if y2.shape != out[cls][ident].shape or float(np.max(np.abs(y2 - out[cls][ident]))) > 1e-9 * sc:
                ctx.violation(f'{prefix}/result-aliases-internal-state/{cls}', f'{cls}({ident!r}) answers differently after the arrays returned by earlier queries were overwritten in place by the caller', {})
                return None
    return out


def judge(case, ctx, prefix='C12'):
    if case.get('kind') == 'steady':
        return judge_steady(case, ctx, prefix)
    cd = case['circuit']
    ok, _ = dynamics.non_degenerate(cd)
    if not ok:
        ctx.count('set_aside_degenerate')
        return
    o1 = run_transient(case, ctx, prefix)
    if o1 is None:
        return
    cd = o1['cd']                                  # the circuit actually simulated (time-scaled for the integer-grid stratum)
    if case.get('integer_grid'):
        ctx.count('simulations_integer_time_grid')
    if any(spec['points'][0][1] != 0 for spec in case['inputs'].values()):
        ctx.count('simulations_input_nonzero_at_first_sample')
    comps = [c for c in cd['components'] if c['ctor'] != 'ground']
    nodes = circdesc.nodes({'components': comps})
    oc = order_class(cd)
    okey = 'hostile-order' if any(oc) else 'conventional-order'
    # the rounding error of every output row scales with the condition number of the DC nodal matrix the model builder inverts
    k_build = dynamics.construction_kappa(cd)
    if not k_build <= 1e8:
        ctx.count('set_aside_construction_ill_conditioned')
        return
    alg_tol = max(1e-7, 256 * k_build * 2.0 ** -53)
    ctx.count('simulations'); ctx.count('simulations_' + okey)
    if case.get('t0_steps'):
        ctx.count('simulations_time_axis_not_from_zero')
    if case.get('t0_steps', 0) < 0:
        ctx.count('simulations_time_axis_from_negative_time')
    if case.get('sweep_of_previous'):
        ctx.count('simulations_value_sweep')
    h, n = o1['h'], case['n']
    sig_v = max([float(np.max(np.abs(v))) for v in o1['V'].values()] + [0.0])
    sig_i = max([float(np.max(np.abs(v))) for v in o1['I'].values()] + [0.0])
    nontrivial = sig_v > 0 or sig_i > 0
    # natural scales of the inputs (a class whose observed values are all ~0 must not be judged relative to itself)
    rs = [c['args']['R'] if c['ctor'] == 'resistor' else 1 / c['args']['G'] for c in comps if c['ctor'] in ('resistor', 'conductance')] or [1.0]
    lv_v = [abs(case['inputs'][c['id']]['level']) for c in comps if dynamics.is_vsrc(c)] or [0.0]
    lv_i = [abs(case['inputs'][c['id']]['level']) for c in comps if dynamics.is_isrc(c)] or [0.0]
    sig_v = max(sig_v, max(lv_v), max(lv_i) * max(rs))
    sig_i = max(sig_i, max(lv_i), max(lv_v) / min(rs))
    ctx.evaluated(circdesc.signature(cd, (oc, tuple(sorted(s['shape'] for s in case['inputs'].values())))), nontrivial)
    ctx.sample({'circuit': cd, 'n': n, 'inputs': case['inputs']})
    if np.max(np.abs(o1['t'] - o1['tin'])) > 1e-9 * max(1e-300, float(o1['tin'][-1])):
        ctx.violation(f'{prefix}/time-axis', 'returned time axis differs from the requested grid', {})
    # (1) rest start
    rest_tol = 1e-9 if any(spec['points'][0][1] != 0 for spec in case['inputs'].values()) else 0.0
    for c in comps:
        # exactly zero while every input is zero at the first sample; with an input already on, the (rounded) feed-through row of a
        # state output may contribute rounding noise
        if c['ctor'] == 'capacitor' and abs(o1['V'][c['id']][0]) > rest_tol * sig_v:
            ctx.violation(f'{prefix}/rest-start/capacitor', f'capacitor {c["id"]!r} starts at {o1["V"][c["id"]][0]!r} V', {})
        if c['ctor'] == 'inductance' and abs(o1['I'][c['id']][0]) > rest_tol * sig_i:
            ctx.violation(f'{prefix}/rest-start/inductor', f'inductor {c["id"]!r} starts at {o1["I"][c["id"]][0]!r} A', {})
    # (2) KCL at every node at every sample (ideal sources and passives: passive sign convention)
    scale_i = max(sig_i, 1e-300)
    for nd in nodes:
        r = np.zeros(n + 1)
        for c in comps:
            if c['nodes'][0] == nd:
                r += o1['I'][c['id']]
            if c['nodes'][1] == nd:
                r -= o1['I'][c['id']]
        ctx.maxstat('max_kcl_residual_over_scale', float(np.max(np.abs(r))) / scale_i)
        if np.max(np.abs(r)) > alg_tol * scale_i:
            ctx.violation(f'{prefix}/kcl/{okey}', f'currents do not balance at node {nd!r}: max residual {float(np.max(np.abs(r)))!r} (signal {scale_i!r})', {'order_class': oc})
            break
    # voltage = potential difference; source outputs reproduce the inputs
    for c in comps:
        d = o1['phi'][c['nodes'][0]] - o1['phi'][c['nodes'][1]]
        if np.max(np.abs(d - o1['V'][c['id']])) > 1e-9 * max(sig_v, 1e-300):
            ctx.violation(f'{prefix}/voltage-not-potential-difference', f'{c["id"]!r}', {})
        if c['ctor'].endswith('source'):
            u = o1['fns'][c['id']](o1['tin'])
            got = o1['V'][c['id']] if dynamics.is_vsrc(c) else o1['I'][c['id']]
            if np.max(np.abs(got - u)) > alg_tol * max(float(np.max(np.abs(u))), 1e-300):
                ctx.violation(f'{prefix}/source-does-not-follow-its-input/{c["ctor"]}/{okey}',
                              f'{"voltage across" if dynamics.is_vsrc(c) else "current through"} source {c["id"]!r} deviates from its input by {float(np.max(np.abs(got - u)))!r}', {'order_class': oc})
        if c['ctor'] in ('resistor', 'conductance'):
            R = c['args']['R'] if c['ctor'] == 'resistor' else 1 / c['args']['G']
            if np.max(np.abs(o1['V'][c['id']] - R * o1['I'][c['id']])) > alg_tol * max(sig_v, R * sig_i):
                ctx.violation(f'{prefix}/ohm/{okey}', f'resistor {c["id"]!r}: v != R i', {})
    # stiff systems (time constants more than 6 decades apart) are ill-conditioned for ANY float integrator: the slow states drown
    # in the rounding of the fast ones. They are judged for the algebraic clauses above only.
    if o1['stiffness'] > 1e6:
        ctx.count('set_aside_stiff_for_the_dynamic_clauses')
        return
    # (3) grid refinement + Simpson integral form of the element dynamics
    o2 = run_transient(case, ctx, prefix, half=True)
    if o2 is None:
        return
    for cls, sig in (('V', sig_v), ('I', sig_i)):
        for k, y in o1[cls].items():
            if np.max(np.abs(o2[cls][k][::2] - y)) > 1e-6 * max(sig, 1e-300):
                ctx.violation(f'{prefix}/grid-refinement/{cls}', f'{cls}({k!r}) on the grids h and h/2 differ by {float(np.max(np.abs(o2[cls][k][::2] - y)))!r} at common instants (inputs are piecewise linear on the coarse grid)', {})
                break
    ctx.count('grid_refinement_checked')
    x = (o1['lam_max'] * h) ** 4 / 2880 * 100 + 1e-7
    for c in comps:
        if c['ctor'] == 'capacitor':
            q, f, K, s = o2['V'][c['id']], o2['I'][c['id']], c['args']['C'], sig_i * h
        elif c['ctor'] == 'inductance':
            q, f, K, s = o2['I'][c['id']], o2['V'][c['id']], c['args']['L'], sig_v * h
        else:
            continue
        simpson = (h / 6) * (f[0:-2:2] + 4 * f[1:-1:2] + f[2::2])
        lhs = K * (q[2::2] - q[0:-2:2])
        ctx.maxstat('max_simpson_residual_over_scale', float(np.max(np.abs(lhs - simpson))) / max(s, 1e-300))
        if np.max(np.abs(lhs - simpson)) > x * max(s, 1e-300):
            ctx.violation(f'{prefix}/element-dynamics/{c["ctor"]}/{okey}',
                          f'{c["ctor"]} {c["id"]!r}: {"C dv" if c["ctor"] == "capacitor" else "L di"} differs from the integral of its {"current" if c["ctor"] == "capacitor" else "voltage"} by {float(np.max(np.abs(lhs - simpson)))!r} (scale {s!r})', {'order_class': oc})
        ctx.count('element_dynamics_checked')
    # (4) independent companion-model reference
    t0 = case.get('t0_steps', 0) * h
    rel = {sid: (lambda f: (lambda t: f(np.asarray(t) + t0)))(f) for sid, f in o1['fns'].items()}
    ref = call(reftr.richardson, cd, circdesc.ground_of(cd), n * h, n, rel)
    if raised(ref):
        ctx.count('reference_unavailable')
    elif ref['richardson_gap'] > 1e-3:
        ctx.count('set_aside_reference_not_converged')
    else:
        ctx.count('companion_reference_compared')
        for nd in nodes:
            e = float(np.max(np.abs(ref['phi'][nd] - o1['phi'][nd])))
            ctx.maxstat('max_companion_error_over_scale', e / max(sig_v, 1e-300))
            if e > 2e-3 * max(sig_v, 1e-300):
                ctx.violation(f'{prefix}/companion-reference/potential/{okey}', f'potential({nd!r}) deviates from the independent trapezoidal reference by {e!r} (signal {sig_v!r})', {'order_class': oc})
                break
        for c in comps:
            e = float(np.max(np.abs(ref['i'][c['id']] - o1['I'][c['id']])))
            if e > 2e-3 * max(sig_i, 1e-300):
                ctx.violation(f'{prefix}/companion-reference/current/{c["ctor"]}/{okey}', f'current({c["id"]!r}) deviates from the independent trapezoidal reference by {e!r} (signal {sig_i!r})', {'order_class': oc})
                break
    # (5) settling to the exact DC solution
    if case.get('settle') and o1['lam_min_re'] > 0 and n * h >= 30.0 / o1['lam_min_re']:
        brs = []
        for c in comps:
            b = circdesc.ref_branch(c, 0.0)
            if c['ctor'].endswith('source'):
                lv = case['inputs'][c['id']]['level']
                b = {**{k: b[k] for k in ('id', 'n1', 'n2')}, 'kind': 'V' if dynamics.is_vsrc(c) else 'I', ('V' if dynamics.is_vsrc(c) else 'I'): lv}
            brs.append(b)
        refd = netsolve.reference_from_ref({'ref': circdesc.ground_of(cd), 'branches': brs})
        if refd is not None and refd['kappa'] < 1e6:
            ctx.count('settling_checked')
            for nd in nodes:
                if abs(o1['phi'][nd][-1] - refd['rep']['phi'][nd].real) > 1e-6 * refd['s_phi']:
                    ctx.violation(f'{prefix}/settling/potential/{okey}', f'potential({nd!r}) ends at {o1["phi"][nd][-1]!r}, exact DC solution {refd["rep"]["phi"][nd].real!r}', {'order_class': oc})
                    break
            for c in comps:
                if abs(o1['I'][c['id']][-1] - refd['rep']['I'][c['id']].real) > 1e-6 * refd['s_i']:
                    ctx.violation(f'{prefix}/settling/current/{c["ctor"]}/{okey}', f'current({c["id"]!r}) ends at {o1["I"][c["id"]][-1]!r}, exact DC solution {refd["rep"]["I"][c["id"]].real!r}', {'order_class': oc})
                    break


def guards(m, tier):
    c = m['counters']
    r = []
    q = tier == 'quick'
    for k, need in (('simulations', 400), ('simulations_hostile-order', 100), ('grid_refinement_checked', 400), ('element_dynamics_checked', 500),
                    ('companion_reference_compared', 80), ('settling_checked', 15), ('simulations_integer_time_grid', 30), ('simulations_input_nonzero_at_first_sample', 60), ('steady_states_compared', 40)):
        need = need if q else need * 12
        if c.get(k, 0) < need:
            r.append(f'{k} = {c.get(k, 0)} (<{need})')
    return r
