"""C04 - linearity and superposition of sources."""
from __future__ import annotations
import cmath, copy, math, random
from ..gen import networks as G
from .. import netdesc
from ..oracles import netsolve
from ..observe import call, raised

TITLE = "C04 scaling all sources scales the solution; responses of source groups (library's own zeroing) add up"
LEVEL = 'exploration'
RULE = ("well-posed random networks (C01 generator) with 1-4 sources of all four kinds (ideal/linear, voltage/current); per network one "
        "random complex scale factor, the all-singletons partition and one random 2-block partition of the source set realised with "
        "short_circuitify_voltage_sources/open_circuitify_current_sources(keep=[...]) (a shared keep list object), and the all-"
        "deactivated network. Non-trivial: >=2 sources for the superposition clause, non-zero solution; distinct by network signature "
        "and source-kind multiset.")
ASSUMPTIONS = [
    "pairs of library executions are related to each other (no external reference needed); the exact tableau is used only to decide well-posedness and to size tolerances",
    "currents are summed as physical first->second currents: a zeroed linear source is reported in the passive convention, an active one in the generator convention (DESIGN 4.1)",
]
N_NET = {'quick': 5400, 'thorough': 30000}


def wide_range_network(rng):
    """a stiff supply (milliohm inner impedance, i.e. a kiloampere Norton source) next to a nano-ampere source that feeds a
    ten-megohm node: the small source is 1e12 ... 1e14 times smaller than the large one and still moves its node by a part in a
    thousand - additivity has to hold for it as for any other source"""
    z1 = rng.choice([1e-2, 2e-2, 5e-3])
    v1 = rng.choice([1, -1]) * rng.uniform(2, 10)
    i2 = rng.choice([1, -1]) * rng.uniform(1, 9) * rng.choice([1e-10, 1e-11])
    big = lambda: rng.uniform(2, 9) * 1e6
    br = [{'id': 'Vq', 'n1': 'a', 'n2': '0', 'ctor': 'voltage_source', 'V': v1, 'Z': z1},
          {'id': 'R1', 'n1': 'a', 'n2': 'b', 'ctor': 'resistor', 'R': rng.uniform(1, 100)},
          {'id': 'R2', 'n1': 'b', 'n2': '0', 'ctor': 'resistor', 'R': rng.uniform(1, 100)},
          {'id': 'R4', 'n1': 'b', 'n2': 'c', 'ctor': 'resistor', 'R': big()},
          {'id': 'R3', 'n1': 'c', 'n2': '0', 'ctor': 'resistor', 'R': big()},
          {'id': 'Iq', 'n1': '0', 'n2': 'c', 'ctor': 'current_source', 'I': i2}]
    if rng.random() < 0.5:
        br[-1]['Y'] = 1 / big()
    rng.shuffle(br)
    return {'ref': '0', 'branches': br}


def generate(tier, seed, shard, nshards):
    rng = random.Random(f'C04/{seed}/{shard}')
    for k in range(N_NET[tier] // nshards):
        if k % 12 == 11:
            yield {'net': wide_range_network(rng), 'a': [rng.uniform(0.5, 2), rng.uniform(-1, 1)], 'split': rng.random(), 'wide': True}
            continue
        d = G.random_network(rng, max_nodes=6, max_branches=11, n_sources=rng.choice([1, 2, 2, 3, 3, 4]))
        r = rng.uniform(0.1, 10)
        a = cmath.rect(r, rng.uniform(-math.pi, math.pi)) if rng.random() < 0.7 else complex(rng.choice([-1.0, 2.0, -0.5, 1j]))
        if rng.random() < 0.2:
            a = a * rng.choice([1e-9, 1e-12, 1e-6, 1e7])        # nano- and mega-scale excitations
        yield {'net': d, 'a': [a.real, a.imag], 'split': rng.random()}


def scale_desc(desc, a):
    d = copy.deepcopy(desc)
    for b in d['branches']:
        for k in ('V', 'I'):
            if k in b and b['ctor'] in ('voltage_source', 'current_source'):
                v = complex(netdesc.cx(b[k])) * a
                b[k] = [v.real, v.imag]
    return d


def phys_sign(feature, active):
    return -1 if (feature in ('lin_v', 'lin_i') and active) else 1


def observe(net, desc, active_ids):
    """solve with the library and return potentials, voltages, *physical* currents, powers"""
    from CircuitCalculator.Network.NodalAnalysis.bias_point_analysis import nodal_analysis_bias_point_solver
    sol = call(nodal_analysis_bias_point_solver, net)
    if raised(sol):
        return sol
    out = {'phi': {}, 'V': {}, 'I': {}, 'P': {}}
    for n in netdesc.nodes(desc):
        v = call(sol.get_potential, n)
        if raised(v):
            return v
        out['phi'][n] = complex(v)
    for b in desc['branches']:
        v, i, p = call(sol.get_voltage, b['id']), call(sol.get_current, b['id']), call(sol.get_power, b['id'])
        for x in (v, i, p):
            if raised(x):
                return x
        out['V'][b['id']] = complex(v)
        out['I'][b['id']] = complex(i) * phys_sign(netsolve.feature_of(b), b['id'] in active_ids)
        out['P'][b['id']] = complex(p)
    return out


def judge(case, ctx, prefix='C04'):
    from CircuitCalculator.Network import transformers as trf
    desc = case['net']
    a = complex(*case['a'])
    refd = netsolve.reference(desc)
    if refd is None or refd['kappa'] > (1e11 if case.get('wide') else netsolve.KAPPA_MAX):
        ctx.count('set_aside_ill_posed_or_conditioned')
        return
    if case.get('wide'):
        ctx.count('wide_dynamic_range_networks')      # tolerance follows kappa (about 1e9 here): 1e-5 of the scale, the small source moves its node by 1e-3
    sources = [b['id'] for b in desc['branches'] if netdesc.is_source(b)]
    if not sources:
        return
    net = call(netdesc.to_lib, desc)
    if raised(net):
        ctx.violation(f'{prefix}/valid-network-rejected/{net.key}', net.text, {})
        return
    base = observe(net, desc, set(sources))
    if raised(base):
        ctx.violation(f'{prefix}/solve-raised/{base.key}', base.text, {})
        return
    kinds = sorted(netsolve.feature_of(b) for b in desc['branches'] if b['id'] in sources)
    ctx.evaluated(netdesc.signature(desc) + repr(kinds), not refd['trivial'])
    ctx.count('networks_judged')
    ctx.sample(case)
    tol, s_phi, s_i = refd['tol'] * 8, refd['s_phi'], refd['s_i']

    def cmp(label, got, exp, cls_scales, mech):
        for cls, s in cls_scales.items():
            for k, e in exp[cls].items():
                g = got[cls][k]
                if abs(g - e) > tol * s:
                    ctx.violation(f'{prefix}/{mech}/{cls}', f'{label}: {cls}({k!r}) = {g!r}, expected {e!r}', {'tol': tol * s})
                    return False
        return True
    # --- homogeneity -------------------------------------------------------------------
    d2 = scale_desc(desc, a)
    n2 = call(netdesc.to_lib, d2)
    sc = observe(n2, d2, set(sources)) if not raised(n2) else n2
    if raised(sc):
        ctx.violation(f'{prefix}/scaled-solve-raised/{sc.key}', sc.text, {})
    else:
        exp = {'phi': {k: v * a for k, v in base['phi'].items()}, 'V': {k: v * a for k, v in base['V'].items()},
               'I': {k: v * a for k, v in base['I'].items()}, 'P': {k: v * abs(a) ** 2 for k, v in base['P'].items()}}
        m = abs(a)
        cmp(f'all sources scaled by {a!r}', sc, exp, {'phi': s_phi * m, 'V': s_phi * m, 'I': s_i * m, 'P': s_phi * s_i * m * m}, 'homogeneity')
        ctx.count('homogeneity_checked')
    # --- superposition through the library's own zeroing operations --------------------------
    by_id = {b.id: b for b in net.branches}
    partitions = [[[s] for s in sources]]
    if len(sources) >= 2:
        k = max(1, min(len(sources) - 1, int(case['split'] * len(sources))))
        partitions.append([sources[:k], sources[k:]])
    partitions.append([[]])      # everything deactivated -> zero solution
    singles = {}
    for part in partitions:
        total = None
        ok = True
        for group in part:
            keep = [by_id[s].element for s in group]          # one shared list object for both calls
            if case['split'] < 0.5:
                # exemption list from an independently rebuilt copy of the description: equal elements, distinct objects
                twin = {b.id: b for b in netdesc.to_lib(desc).branches}
                keep = [twin[s].element for s in group]
                ctx.count('keep_lists_of_equal_but_distinct_elements')
            z = call(trf.short_circuitify_voltage_sources, net, keep)
            z = call(trf.open_circuitify_current_sources, z, keep) if not raised(z) else z
            if raised(z):
                ctx.violation(f'{prefix}/zeroing-raised/{z.key}', z.text, {})
                ok = False
                break
            # the zeroing must change only what it names
            for b0, b1 in zip(net.branches, z.branches):
                same_place = (b0.node1, b0.node2, b0.id) == (b1.node1, b1.node2, b1.id)
                if not same_place:
                    ctx.violation(f'{prefix}/zeroing-moved-a-branch', f'{b0!r} -> {b1!r}', {})
                    ok = False
                if b0.id in group or b0.id not in sources:
                    if b1.element != b0.element and repr(b1.element) != repr(b0.element):
                        ctx.violation(f'{prefix}/zeroing-touched-exempt-or-passive-element', f'{b0.element!r} -> {b1.element!r} (keep={group!r})', {})
                        ok = False
            if len(z.branches) != len(net.branches) or z.node_zero_label != net.node_zero_label:
                ctx.violation(f'{prefix}/zeroing-changed-structure', f'{len(net.branches)} -> {len(z.branches)} branches', {})
                ok = False
            o = observe(z, desc, set(group))
            if raised(o):
                ctx.violation(f'{prefix}/partial-solve-raised/{o.key}', f'sources {group!r} alone: {o.text}', {})
                ok = False
                break
            if len(group) == 1:
                singles[group[0]] = copy.deepcopy(o)
            if total is None:
                total = o
            else:
                for cls in ('phi', 'V', 'I'):
                    for k2 in total[cls]:
                        total[cls][k2] += o[cls][k2]
        if not ok or total is None:
            continue
        if part == [[]]:
            zero = {cls: {k2: 0j for k2 in base[cls]} for cls in ('phi', 'V', 'I', 'P')}
            cmp('all sources deactivated', total, zero, {'phi': s_phi, 'V': s_phi, 'I': s_i, 'P': s_phi * s_i}, 'deactivated-not-zero')
            ctx.count('all_deactivated_checked')
        else:
            if len(sources) >= 2:
                ctx.count('superposition_checked')
            n = len(part)
            cmp(f'sum over source groups {part!r}', total, base, {'phi': s_phi * n, 'V': s_phi * n, 'I': s_i * n}, 'superposition')


    # --- each zeroing operation on its own (only where "voltage source"/"current source" is unambiguous) ----
    feats = {b['id']: netsolve.feature_of(b) for b in desc['branches'] if b['id'] in sources}
    if len(singles) == len(sources):
        for op, forbidden, stay in ((trf.open_circuitify_current_sources, 'lin_v', 'ideal_v'), (trf.short_circuitify_voltage_sources, 'lin_i', 'ideal_i')):
            if forbidden in feats.values():
                continue
            z = call(op, net, [])
            if raised(z):
                ctx.violation(f'{prefix}/zeroing-raised/{z.key}', z.text, {})
                continue
            remain = [sid for sid, f in feats.items() if f == stay]
            o = observe(z, desc, set(remain))
            if raised(o):
                ctx.violation(f'{prefix}/partial-solve-raised/{o.key}', o.text, {})
                continue
            exp = {cls: {k2: sum((singles[sid][cls][k2] for sid in remain), 0j) for k2 in base[cls]} for cls in ('phi', 'V', 'I')}
            n = max(1, len(remain))
            cmp(f'{op.__name__}(keep=[]) must leave exactly the sources {remain!r} active', o, exp, {'phi': s_phi * n, 'V': s_phi * n, 'I': s_i * n}, f'single-operation/{op.__name__}')
            ctx.count('single_operation_checked')


def guards(m, tier):
    c = m['counters']
    r = []
    for k, need in (('networks_judged', 800), ('homogeneity_checked', 800), ('superposition_checked', 400), ('all_deactivated_checked', 800)):
        need = need if tier == 'quick' else need * 10
        if c.get(k, 0) < need:
            r.append(f'{k} = {c.get(k, 0)} (<{need})')
    return r
