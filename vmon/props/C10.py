"""C10 - the state-space model is an exact realisation of the circuit."""
from __future__ import annotations
import math, random
import numpy as np
from ..gen import circuits as GC
from ..gen import networks as G
from .. import circdesc
from ..oracles import netsolve, dynamics
from ..ref import floatmna
from ..observe import call, raised

TITLE = "C10 C (jwI - A)^-1 B + D = exact phasor response to each published source alone, for every output and a frequency sweep"
LEVEL = 'exploration'
RULE = ("random circuits of resistors/conductances, 1-4 capacitors/inductors and 1-3 ideal DC-type sources on 2-6 nodes with hostile "
        "names (current sources that sort after voltage sources and inductors, inductors/capacitors listed non-alphabetically), "
        "non-degeneracy decided exactly (no C/V loop, no L/I cutset, DC and high-frequency limit systems full rank); per circuit "
        "every published source x every node potential, element voltage and element current x 7 frequencies (0 and a log sweep "
        "across the time constants). Non-trivial: >=1 reactive element and >=1 source and non-zero response; distinct by (circuit "
        "signature, name-order class).")
ASSUMPTIONS = [
    "reference response = exact tableau solution at s = jw with the chosen source at unit amplitude and all others deactivated",
    "tolerance (1e-9 + 256 kappa 2^-53)*scale, kappa = max(cond of the reference MNA, cond(jwI - A)); kappa > 1e8 set aside",
    "numpy used for the complex linear solve of the transfer function and for condition numbers",
]
N_CIRC = {'quick': 1000, 'thorough': 9000}
DYN_IDS = ['R1', 'R2', 'R10', 'G1', 'Vs', 'Vq', 'V1', 'Is', 'Iq', 'I1', 'A', 'B', 'Z', 'a', 'z', 'L1', 'L2', 'L10', 'La', 'C1', 'C2', 'C10', 'Ca',
           '1', '2', '10', '9', 'U', 'q', 'K', 'M', 'H1', 'E', 'X', 'Y', 'W', 'b', 'c']


def dyn_circuit(rng, max_nodes=6, lossy=0.0, sources=('dc_voltage_source', 'dc_current_source', 'dc_voltage_source', 'dc_current_source',
                                                     'ac_voltage_source', 'periodic_voltage_source', 'ac_current_source', 'periodic_current_source')):
    """RLC + ideal DC-type sources; retried until non-degenerate (exact)."""
    for _ in range(60):
        cd = GC.random_circuit(rng, max_nodes=max_nodes, max_comps=9, passives=['resistor', 'resistor', 'conductance'], n_reactive=(1, 4),
                               sources=list(sources), n_sources=(1, 3), ground_prob=0.75, lossy=lossy, id_pool=DYN_IDS)
        for c in cd['components']:                  # a DC source whose nominal value is 0 is still an input of the dynamic model
            if c['ctor'] == 'dc_voltage_source' and rng.random() < 0.15:
                c['args']['V'] = 0.0
            if c['ctor'] == 'dc_current_source' and rng.random() < 0.15:
                c['args']['I'] = 0.0
        ok, _ = dynamics.non_degenerate(cd)
        if ok:
            if rng.random() < 0.15:
                # a resistor bridged out by its own terminals (both on one node): carries nothing, changes nothing
                free = [i for i in DYN_IDS if i not in {c['id'] for c in cd['components']}]
                if free:
                    n = rng.choice(circdesc.nodes(cd))
                    cd['components'].insert(rng.randrange(len(cd['components']) + 1),
                                            {'ctor': 'resistor', 'id': rng.choice(free), 'nodes': [n, n], 'args': {'R': G.value(rng, 0, 3)}})
                    if not dynamics.non_degenerate(cd)[0]:
                        continue
            return cd
    return None


def swept(rng, cd):
    """the same circuit (ids, topology, listing) with other element values: what a parameter sweep analyses next in the same process"""
    import copy
    c2 = copy.deepcopy(cd)
    for c in c2['components']:
        for k in ('R', 'G', 'C', 'L'):
            if k in c['args'] and c['ctor'] in ('resistor', 'conductance', 'capacitor', 'inductance'):
                c['args'][k] = c['args'][k] * rng.choice([0.02, 0.05, 0.3, 3.0, 20.0, 50.0])
    return c2


def generate(tier, seed, shard, nshards):
    rng = random.Random(f'C10/{seed}/{shard}')
    for _ in range(N_CIRC[tier] // nshards):
        cd = dyn_circuit(rng)
        if cd is None:
            continue
        yield {'circuit': cd, 'wsel': rng.random()}
        if rng.random() < 0.35:
            yield {'circuit': swept(rng, cd), 'wsel': rng.random(), 'sweep_of_previous': True}


def build_models(cd):
    """-> (circuit, network, nodal model, c_values, l_values) through the library's public entry points"""
    from CircuitCalculator.Circuit.circuit import transform_circuit
    from CircuitCalculator.Network.NodalAnalysis.state_space_model import nodal_state_space_model
    circ = circdesc.to_lib(cd)
    # the network the library builds its dynamic model from: every source is an input whatever its nominal amplitude / frequency
    import CircuitCalculator.Circuit.circuit as cmod
    net = cmod.input_network(circ) if hasattr(cmod, 'input_network') else transform_circuit(circ, w=0)
    cv = {c.id: float(c.value['C']) for c in circ.components if c.type == 'capacitor'}
    lv = {c.id: float(c.value['L']) for c in circ.components if c.type == 'inductance'}
    ssm = nodal_state_space_model(net, c_values=cv, l_values=lv)
    return circ, net, ssm, cv, lv


def time_constants(A):
    ev = np.linalg.eigvals(A) if A.size else np.array([])
    mags = [abs(e) for e in ev if abs(e) > 0]
    return (min(mags), max(mags)) if mags else (1.0, 1.0)


def order_class(cd):
    ids = [c['id'] for c in cd['components'] if c['ctor'] != 'ground']
    vs = [c['id'] for c in cd['components'] if dynamics.is_vsrc(c)]
    cs = [c['id'] for c in cd['components'] if dynamics.is_isrc(c)]
    ls = [c['id'] for c in cd['components'] if c['ctor'] == 'inductance']
    cs_ = [c['id'] for c in cd['components'] if c['ctor'] == 'capacitor']
    return (any(i > v for i in cs for v in vs), any(i > l for i in cs for l in ls), ls != sorted(ls), cs_ != sorted(cs_),
            any(v > l for v in vs for l in ls))


def judge(case, ctx, prefix='C10'):
    cd = case['circuit']
    ok, why = dynamics.non_degenerate(cd)
    if not ok:
        ctx.count('set_aside_degenerate')
        return
    built = call(build_models, cd)
    oc = order_class(cd)
    okey = 'hostile-order' if any(oc) else 'conventional-order'
    if raised(built):
        ctx.violation(f'{prefix}/model-construction-raised/{built.key}/{okey}', f'state-space model of a non-degenerate circuit raised {built.text}', {'order_class': oc})
        return
    circ, net, ssm, cv, lv = built
    A, B, C, D = ssm.A, ssm.B, ssm.C, ssm.D
    comps = [c for c in cd['components'] if c['ctor'] != 'ground']
    srcs_expected = sorted(c['id'] for c in comps if c['ctor'].endswith('source'))
    ctx.count('models_built')
    if case.get('sweep_of_previous'):
        ctx.count('models_value_sweep')
    ctx.count('models_' + okey)
    n_c = sum(1 for c in comps if c['ctor'] == 'capacitor')
    n_l = sum(1 for c in comps if c['ctor'] == 'inductance')
    if ssm.n_states != n_c + n_l or A.shape != (n_c + n_l, n_c + n_l):
        ctx.violation(f'{prefix}/state-dimension', f'{ssm.n_states} states for {n_c} capacitors + {n_l} inductors', {})
        return
    sources = call(lambda: list(ssm.sources))
    if raised(sources) or sorted(sources) != srcs_expected or B.shape[1] != len(srcs_expected):
        ctx.violation(f'{prefix}/published-sources', f'published sources {sources!r}, circuit sources {srcs_expected!r}, B has {B.shape[1]} columns', {})
        return
    if not (np.all(np.isfinite(A)) and np.all(np.isfinite(B)) and np.all(np.isfinite(C)) and np.all(np.isfinite(D))):
        ctx.violation(f'{prefix}/non-finite-matrices/{okey}', 'A, B, C or D contains NaN/inf for a non-degenerate circuit', {})
        return
    # state identity: capacitor voltage / inductor current rows are unit vectors in (capacitor order, inductor order)
    order = list(cv) + list(lv)
    from CircuitCalculator.Network.NodalAnalysis.node_analysis import nodal_analysis_coefficient_matrix
    try:
        Mlib = nodal_analysis_coefficient_matrix(net).real                               # sizes the tolerance only
        kap = float(np.linalg.cond(Mlib))
        d_scale = max(1.0, float(np.max(np.abs(np.linalg.inv(Mlib)))))                   # natural size of a transfer entry (largest transimpedance)
    except Exception:
        kap, d_scale = float('inf'), 1.0
    id_tol = max(1e-6, 4096 * kap * 2.0 ** -53)          # two nested inversions in the builder
    if not kap < 1e10:
        order = []
        ctx.count('set_aside_state_identity_ill_conditioned')
    used = {}
    for sid in order:
        row = call(ssm.c_row_voltage if sid in cv else ssm.c_row_current, sid)
        drow = call(ssm.d_row_voltage if sid in cv else ssm.d_row_current, sid)
        if raised(row) or raised(drow):
            bad = row if raised(row) else drow
            ctx.violation(f'{prefix}/row-accessor-raised/{bad.key}', bad.text, {})
            return
        r = np.asarray(row, dtype=float).reshape(-1)
        k = int(np.argmax(np.abs(r))) if r.size else 0
        e = np.zeros(len(order)); e[k] = 1
        sc = max(1.0, float(np.max(np.abs(r))))
        # the states ARE the capacitor voltages / inductor currents: each is exactly one state (any consistent order), no feedthrough
        if np.max(np.abs(r - e)) > id_tol * sc or np.max(np.abs(np.asarray(drow).reshape(-1))) > id_tol * max(d_scale, float(np.max(np.abs(D))) if D.size else 1.0) or k in used:
            ctx.violation(f'{prefix}/state-identity/{"capacitor" if sid in cv else "inductor"}/{okey}',
                          f'the {"voltage" if sid in cv else "current"} of {sid!r} is not one state of its own: C-row {r!r}, D-row {np.asarray(drow).reshape(-1)!r}' + (f' (state {k} already stands for {used[k]!r})' if k in used else ''), {'order_class': oc})
            break
        used[k] = sid
    ctx.count('state_identity_checked')
    lo, hi = time_constants(A)
    ws = [0.0] + [float(x) for x in np.logspace(math.log10(lo) - 1.5, math.log10(hi) + 1.5, 6)]
    nodes = circdesc.nodes({'components': comps})
    k_build = dynamics.construction_kappa(cd)
    ctx.maxstat('max_construction_kappa', k_build if np.isfinite(k_build) else 1e300)

    def transfer_clause(m, srcs, pfx, counter):
        """every output row of model m against the exact unit phasor response; None after a violation, else whether anything was non-zero"""
        rows_c, rows_d, labels = [], [], []
        for n in nodes:
            rows_c.append(call(m.c_row_for_potential, n)); rows_d.append(call(m.d_row_for_potential, n)); labels.append(('potential', n, 'node'))
        for c in comps:
            rows_c.append(call(m.c_row_voltage, c['id'])); rows_d.append(call(m.d_row_voltage, c['id'])); labels.append(('voltage', c['id'], c['ctor']))
            rows_c.append(call(m.c_row_current, c['id'])); rows_d.append(call(m.d_row_current, c['id'])); labels.append(('current', c['id'], c['ctor']))
        for r in rows_c + rows_d:
            if raised(r):
                ctx.violation(f'{pfx}/row-accessor-raised/{r.key}', r.text, {})
                return None
        Cm = np.vstack([np.asarray(r, dtype=float).reshape(1, -1) for r in rows_c])
        Dm = np.vstack([np.asarray(r, dtype=float).reshape(1, -1) for r in rows_d])
        nontrivial = False
        for w in ws:
            tf = call(dynamics.transfer, m.A, m.B, Cm, Dm, w)
            if raised(tf):
                ctx.count('set_aside_point_on_a_pole')
                continue
            H, kM = tf
            for j, sid in enumerate(srcs):
                ref_net = dynamics.unit_response_network(cd, w, sid)
                refd = netsolve.reference_from_ref(ref_net)
                if refd is None:
                    ctx.count('set_aside_point_ill_posed')
                    continue
                kappa = max(refd['kappa'], float(kM), k_build)
                if not kappa <= netsolve.KAPPA_MAX:
                    ctx.count('set_aside_point_ill_conditioned')
                    continue
                tol = floatmna.tolerance(kappa)
                rep = refd['rep']
                src_comp = next(c for c in comps if c['id'] == sid)
                for r, (cls, ident, feat) in enumerate(labels):
                    exp = rep['phi'][ident] if cls == 'potential' else (rep['V'][ident] if cls == 'voltage' else rep['I'][ident])
                    s = refd['s_phi'] if cls != 'current' else refd['s_i']
                    got = complex(H[r, j])
                    ctx.count(counter)
                    err = abs(got - exp)
                    ctx.maxstat('max_transfer_error_over_scale', err / s if s else 0)
                    if abs(exp) > 0:
                        nontrivial = True
                    if not err <= tol * s:
                        ctx.violation(f'{pfx}/transfer-mismatch/{cls}/{feat}/{"dc" if w == 0 else "ac"}/{okey}',
                                      f'H[{cls}({ident!r}) <- {sid!r}](j{w:.6g}) = {got!r}, exact phasor response {exp!r}',
                                      {'w': w, 'source': sid, 'source_kind': src_comp['ctor'], 'sources_published': srcs, 'order_class': oc, 'tol': tol * s})
                        return None
        return nontrivial

    nontrivial = transfer_clause(ssm, sources, prefix, 'transfer_values_compared')
    if nontrivial is None:
        return
    # the same model built with user-supplied node / source numberings (mapper extension point): same transfer behaviour
    from CircuitCalculator.Network.NodalAnalysis.state_space_model import nodal_state_space_model
    from .. import mappers
    cm = mappers.custom_numbering(ctx.rng.getrandbits(30))
    which = ctx.rng.choice(['node', 'voltage-source', 'current-source', 'all'])
    kw = {'node': {'node_index_mapper': cm['node_mapper']}, 'voltage-source': {'voltage_source_index_mapper': cm['voltage_source_mapper']},
          'current-source': {'current_source_index_mapper': cm['current_source_mapper']},
          'all': {'node_index_mapper': cm['node_mapper'], 'voltage_source_index_mapper': cm['voltage_source_mapper'], 'current_source_index_mapper': cm['current_source_mapper']}}[which]
    ssm2 = call(nodal_state_space_model, net, c_values=cv, l_values=lv, **kw)
    ctx.count('custom_numbering_models')
    if raised(ssm2):
        ctx.violation(f'{prefix}/custom-numbering/{which}/model-construction-raised/{ssm2.key}', f'state-space model with a permuted {which} numbering raised {ssm2.text}', {})
    else:
        src2 = call(lambda: list(ssm2.sources))
        if raised(src2) or sorted(src2) != srcs_expected or ssm2.B.shape[1] != len(srcs_expected):
            ctx.violation(f'{prefix}/custom-numbering/{which}/published-sources', f'published sources {src2!r}, circuit sources {srcs_expected!r}', {})
        else:
            transfer_clause(ssm2, src2, f'{prefix}/custom-numbering/{which}', 'custom_numbering_transfer_values_compared')
    # the circuit-level wrapper must stack exactly these rows
    from CircuitCalculator.Circuit.state_space_model import state_space_model
    ids = [c['id'] for c in comps]
    wrap = call(state_space_model, circ, list(nodes), list(ids), list(ids))
    if raised(wrap):
        ctx.violation(f'{prefix}/wrapper-raised/{wrap.key}', wrap.text, {})
    else:
        Cw = np.vstack([np.asarray(call(ssm.c_row_for_potential, n)).reshape(1, -1) for n in nodes] +
                       [np.asarray(call(ssm.c_row_voltage, i)).reshape(1, -1) for i in ids] + [np.asarray(call(ssm.c_row_current, i)).reshape(1, -1) for i in ids])
        Dw = np.vstack([np.asarray(call(ssm.d_row_for_potential, n)).reshape(1, -1) for n in nodes] +
                       [np.asarray(call(ssm.d_row_voltage, i)).reshape(1, -1) for i in ids] + [np.asarray(call(ssm.d_row_current, i)).reshape(1, -1) for i in ids])
        for nm, X, Yv in (('A', wrap.A, A), ('B', wrap.B, B), ('C', wrap.C, Cw), ('D', wrap.D, Dw)):
            if X.shape != Yv.shape or (X.size and np.max(np.abs(X - Yv)) > 1e-9 * max(1.0, float(np.max(np.abs(Yv))))):
                ctx.violation(f'{prefix}/wrapper-differs/{nm}', f'Circuit.state_space_model {nm} differs from the nodal model rows', {})
                break
        ctx.count('wrapper_checked')
    ctx.evaluated(circdesc.signature(cd, oc), nontrivial)
    ctx.sample(case)


def guards(m, tier):
    c = m['counters']
    r = []
    q = tier == 'quick'
    for k, need in (('models_built', 250), ('models_hostile-order', 80), ('transfer_values_compared', 40000), ('wrapper_checked', 150)):
        need = need if q else need * 12
        if c.get(k, 0) < need:
            r.append(f'{k} = {c.get(k, 0)} (<{need})')
    return r
