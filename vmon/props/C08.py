"""C08 - Fourier series of the built-in periodic waveforms are the true coefficients."""
from __future__ import annotations
import cmath, math, random
import numpy as np
from ..ref import fourier
from ..observe import call, raised

TITLE = "C08 harmonic amplitude/phase = true Fourier coefficient of the waveform's own time function"
LEVEL = 'exploration'
RULE = ("6 built-in wave types x amplitudes of either sign over 6 decades x phases in [-6pi, 6pi] (incl. exact multiples of pi/2) x "
        "offsets x periods over 6 decades; per waveform the harmonic orders 0..40 plus random orders up to 600 are compared with a "
        "closed-form integral of the sampled time function; a/b/c forms, c(-n)=conj c(n), Parseval with a total-variation tail bound, "
        "lookup by name. Non-trivial: shape recognised and amplitude != 0; distinct by (wave type, sign/zero class of amplitude, phase "
        "class, offset class, period decade).")
ASSUMPTIONS = [
    "the oracle samples the library's own time_function (3 points define each affine piece / the sinusoid, further points confirm it) and integrates in closed form",
    "breakpoints are at (t + phase/2pi*T) mod T in {0, T/2}; a waveform that does not fit is counted 'shape_unknown' (guarded)",
    "tolerance 1e-9*(|amplitude|+|offset|) on the complex coefficient A_n e^{j phi_n} (invariant under (-A, phi+pi) and whole turns)",
]
WAVES = ['const', 'cos', 'sin', 'rect', 'tri', 'saw']
N_WAVE = {'quick': 4800, 'thorough': 48000}
HELD = {}
SPECIAL_PH = [0.0, math.pi / 2, -math.pi / 2, math.pi, -math.pi, 2 * math.pi, 3 * math.pi / 2, -4 * math.pi, math.pi / 4, 1e-9, -1e-9]


def generate(tier, seed, shard, nshards):
    rng = random.Random(f'C08/{seed}/{shard}')
    if shard == 0:
        yield {'kind': 'lookup'}
    for k in range(N_WAVE[tier] // nshards):
        wave = WAVES[k % len(WAVES)]
        T = rng.choice([1.0, 2 * math.pi, 0.02]) if rng.random() < 0.2 else 10 ** rng.uniform(-3, 3)
        A = rng.choice([1, -1]) * (rng.choice([1.0, 2.0, 0.5]) if rng.random() < 0.3 else 10 ** rng.uniform(-3, 3))
        r = rng.random()
        ph = rng.choice(SPECIAL_PH) if r < 0.3 else (rng.uniform(-6 * math.pi, 6 * math.pi) if r < 0.6 else rng.uniform(-math.pi, math.pi))
        off = 0.0 if rng.random() < 0.4 else rng.choice([1, -1]) * 10 ** rng.uniform(-2, 2)
        if (k // len(WAVES)) % 11 == 10:
            A = rng.choice([0.0, -0.0, 0])            # an amplitude of exactly zero: the waveform is its offset
            off = rng.choice([1, -1]) * 10 ** rng.uniform(-2, 2)
        ns = list(range(0, 41)) + sorted(rng.sample(range(41, 601), 12))
        # number types: a waveform's parameters (and the harmonic order) as Python ints / numpy scalars instead of float / int
        yield {'kind': 'wave', 'wave': wave, 'period': T, 'amplitude': A, 'phase': ph, 'offset': off, 'ns': ns,
               'number_type': (None, None, None, 'int', None, 'numpy', None, 'npint')[(k // len(WAVES)) % 8]}


def total_variation(sh):
    if sh.kind != 'affine2':
        return None
    (lo1, hi1, a1, b1), (lo2, hi2, a2, b2) = sh.pieces
    v = abs(b1) * (hi1 - lo1) + abs(b2) * (hi2 - lo2)
    v += abs((a2 + b2 * lo2) - (a1 + b1 * hi1))           # jump at T/2
    v += abs((a1 + b1 * lo1) - (a2 + b2 * hi2))           # jump at the period wrap
    return v


def judge(case, ctx, prefix='C08'):
    from CircuitCalculator.SignalProcessing import periodic_functions as pfm
    if case['kind'] == 'lookup':
        import json as _json
        for name0 in WAVES:
          for name in (name0, ''.join(list(name0)), _json.loads(_json.dumps({'w': name0}))['w'], (' ' + name0).strip()):      # a name read from a file is an equal, not the identical, string
            cls = call(pfm.periodic_function, name)
            if raised(cls):
                ctx.violation(f'{prefix}/lookup/raised', f'periodic_function({name!r}) raised {cls.text}', {})
            elif getattr(cls, 'wavetype', None) != name:
                ctx.violation(f'{prefix}/lookup/wrong-class', f'periodic_function({name!r}) returned {cls!r} (wavetype {getattr(cls, "wavetype", None)!r})', {})
            ctx.count('lookups_checked')
        for name in ['nope', '', 'COS', 'rectangle', 'sine', 'Const']:
            r = call(pfm.periodic_function, name)
            if not raised(r):
                ctx.violation(f'{prefix}/lookup/unknown-name-accepted', f'periodic_function({name!r}) returned {r!r} instead of raising', {})
            ctx.count('lookups_checked')
        ctx.evaluated('lookup', True)
        return
    wave, T, A, ph, off = case['wave'], case['period'], case['amplitude'], case['phase'], case['offset']
    cls = call(pfm.periodic_function, wave)
    if raised(cls):
        ctx.violation(f'{prefix}/lookup/raised', f'periodic_function({wave!r}) raised {cls.text}', {})
        return
    nt = case.get('number_type')
    from .. import netdesc
    netdesc._NUMBER_TYPE[0] = nt
    try:
        Tt, At, pht, offt = (netdesc.typed(x) for x in (T, A, ph, off))
    finally:
        netdesc._NUMBER_TYPE[0] = None
    if nt:
        ctx.count('waveforms_with_int_or_numpy_parameters')
    pf = call(cls, period=Tt, amplitude=At, phase=pht, offset=offt)
    hs = call(pfm.fourier_series, pf) if not raised(pf) else pf
    if raised(hs):
        ctx.violation(f'{prefix}/construction-raised/{hs.key}', f'{wave} waveform / fourier_series raised {hs.text}', {})
        return
    # the time function of a waveform does not depend on the number type of the instants it is asked for
    ti = np.arange(0, 9)
    yi, yf = call(pf.time_function, ti), call(pf.time_function, ti.astype(float))
    ctx.count('integer_typed_instants_checked')
    if raised(yi) or raised(yf):
        bad = yi if raised(yi) else yf
        ctx.violation(f'{prefix}/time-function/raised/{bad.key}', f'{wave}: time_function on {"integer" if raised(yi) else "float"} instants raised {bad.text}', {})
    else:
        yi_, yf_ = np.asarray(yi, dtype=float).reshape(-1), np.asarray(yf, dtype=float).reshape(-1)
        if yi_.shape != yf_.shape or float(np.max(np.abs(yi_ - yf_))) > 1e-9 * (abs(A) + abs(off) + 1e-300):
            ctx.violation(f'{prefix}/time-function/depends-on-the-number-type-of-t/{wave}', f'{wave} (A={A!r}, offset={off!r}, T={T!r}): integer-typed instants give {yi_[:4].tolist()!r}, the same instants as floats {yf_[:4].tolist()!r}', {})
    # instants on the edges and corners of the waveform (quarter periods, exact for phase 0): every value lies between the two extremes
    te = np.array([0.0, T / 4, T / 2, 3 * T / 4, T, 1.5 * T, 2 * T])
    ye = call(pf.time_function, te)
    ctx.count('edge_instants_checked')
    if not raised(ye) and wave != 'const':          # (the constant waveform is its amplitude; it has no extremes around an offset)
        ye_ = np.asarray(ye, dtype=float).reshape(-1)
        if not np.all(np.isfinite(ye_)) or float(np.max(np.abs(ye_ - off))) > abs(A) * (1 + 1e-9) + 1e-300:
            ctx.violation(f'{prefix}/time-function/value-outside-the-waveform-range/{wave}', f'{wave} (A={A!r}, offset={off!r}, T={T!r}, phase={ph!r}): values {ye_.tolist()!r} at quarter-period instants leave [offset - |A|, offset + |A|]', {})
    sh = fourier.recognise(pf.time_function, T, ph)
    if sh.kind == 'unknown':
        ctx.count('shape_unknown')
        return
    # a series object requested EARLIER for another waveform of the same type must still describe that waveform
    prev = HELD.get(wave)
    if prev is not None:
        hs0, sh0, T0, scale0, desc0 = prev
        for n in (0, 1, 3):
            X0 = fourier.coefficient(sh0, T0, n)
            a0, p0 = call(hs0.amplitude, n), call(hs0.phase, n)
            if raised(a0) or raised(p0):
                continue
            got0 = complex(a0 * math.cos(p0)) if n == 0 else a0 * cmath.exp(1j * p0)
            ctx.count('held_series_rechecked')
            if abs(got0 - X0) > 1e-9 * scale0:
                ctx.violation(f'{prefix}/earlier-series-changed/{wave}', f'the series of {desc0} reports A_{n} e^(j phi_{n}) = {got0!r} (true {X0!r}) after a series for another {wave} waveform was requested', {})
                break
    HELD[wave] = (hs, sh, T, abs(A) + abs(off), f'{wave}(T={T:.4g}, A={A:.4g}, phase={ph:.4g}, offset={off:.4g})')
    tol = 1e-9 * (abs(A) + abs(off))
    phc = 'special' if ph in SPECIAL_PH else ('multi-turn' if abs(ph) > math.pi else 'principal')
    ctx.evaluated(repr((wave, A > 0, phc, off == 0, off > 0, round(math.log10(T)))), True)
    ctx.count('waveforms_judged'); ctx.count(f'wave_{wave}'); ctx.count(f'shape_{sh.kind}')
    ctx.sample(case)
    part = 0.0
    for n in case['ns']:
        X = fourier.coefficient(sh, T, n)
        if nt in ('numpy', 'npint'):
            n = np.int64(n)                      # orders taken from a numpy range
        an, pn = call(hs.amplitude, n), call(hs.phase, n)
        if raised(an) or raised(pn):
            bad = an if raised(an) else pn
            ctx.violation(f'{prefix}/coefficient-raised/{bad.key}', f'{wave}: amplitude/phase({n}) raised {bad.text}', {})
            return
        got = an * cmath.exp(1j * pn)
        if n == 0:
            got = complex(an * math.cos(pn))
        ctx.count('coefficients_compared')
        err = abs(got - X)
        ctx.maxstat('max_coefficient_error_over_scale', err / (abs(A) + abs(off)))
        ncls = 'n0' if n == 0 else ('n1' if n == 1 else ('odd' if n % 2 else 'even'))
        if not err <= tol:
            ctx.violation(f'{prefix}/coefficient-mismatch/{wave}/{ncls}',
                          f'{wave}(T={T:.4g}, A={A:.4g}, phase={ph:.6g}, offset={off:.4g}): A_{n} e^(j phi_{n}) = {got!r}, true coefficient {X!r}',
                          {'n': n, 'amplitude': an, 'phase': pn, 'true': X})
            return
        if n <= 40:
            part += (an * math.cos(pn)) ** 2 if n == 0 else 0.5 * an * an
        if n >= 1:
            a_, b_, c_, cm = call(hs.a, n), call(hs.b, n), call(hs.c, n), call(hs.c, -n)
            for nm, v in (('a', a_), ('b', b_), ('c', c_), ('c-', cm)):
                if raised(v):
                    ctx.violation(f'{prefix}/form-raised/{nm}', f'{wave}: {nm}({n}) raised {v.text}', {})
                    return
            if abs(a_ - X.real) > tol or abs(b_ + X.imag) > tol:
                ctx.violation(f'{prefix}/ab-form-mismatch/{wave}', f'{wave}: a({n})={a_!r}, b({n})={b_!r} but true a={X.real!r}, b={-X.imag!r}', {})
                return
            if abs(c_ - X / 2) > tol or abs(cm - (X / 2).conjugate()) > tol:
                ctx.violation(f'{prefix}/c-form-mismatch/{wave}', f'{wave}: c({n})={c_!r}, c(-{n})={cm!r} but true c={X / 2!r}', {})
                return
            an_neg, pn_neg = call(hs.amplitude, -n), call(hs.phase, -n)
            ctx.count('forms_compared')
    # Parseval with rigorous tail bound (orders 0..40 retained)
    ms = fourier.mean_square(sh, T)
    N = 40
    if sh.kind == 'affine2':
        V = total_variation(sh)
        tail = 0.5 * (V / math.pi) ** 2 / N
    else:
        tail = 0.0
    slack = 1e-9 * (abs(A) + abs(off)) ** 2
    if part > ms + slack or ms - part > tail + slack:
        ctx.violation(f'{prefix}/parseval/{wave}', f'{wave}: mean square {ms!r}, energy of orders 0..{N} = {part!r}, admissible tail {tail!r}', {})
    ctx.count('parseval_checked')


def guards(m, tier):
    c = m['counters']
    r = []
    if c.get('shape_unknown', 0) > 0.02 * max(1, c.get('waveforms_judged', 0)):
        r.append(f"{c.get('shape_unknown')} waveforms not recognised by the oracle")
    for w in WAVES:
        if c.get(f'wave_{w}', 0) < 50:
            r.append(f'wave type {w} judged only {c.get(f"wave_{w}", 0)} times')
    if c.get('lookups_checked', 0) < 10:
        r.append('lookup clause not exercised')
    return r
