"""C07 - every component becomes exactly one faithful network branch."""
from __future__ import annotations
import math, random
from ..gen import circuits as GC
from ..gen import networks as G
from .. import circdesc
from ..oracles import branchlaw
from ..observe import call, raised

TITLE = "C07 transform_circuit: one faithful branch per non-ground component, right reference node"
LEVEL = 'exploration'
RULE = ("component lists of 1-7 components drawn from EVERY constructor of Circuit.components (resistor, conductance, capacitor, "
        "inductance, impedance, admittance, dc/ac/complex/periodic voltage and current sources with and without internal R/G, lamp, "
        "resistive_load, short_circuit, ground) with edge values (R=0, R=inf, G=0, C/L at w=0), every list position, with/without "
        "ground, transformed at w in {0, source frequency, +-0.9/1.1 w_resolution, harmonics n*w0, random} and w_resolution in "
        "{1e-3, 1e-6, 0.5}; also the list form transform(circuit, [w...]). Non-trivial: >=1 non-ground component; distinct by "
        "(constructor, value class, w class, position, ground presence).")
ASSUMPTIONS = [
    "expected branch law = independent component table (DESIGN 4.1); periodic sources: n-th true Fourier coefficient of the library's own time function",
    "elements are compared through the element protocol (Z, Y, V, I), so Thevenin/Norton representation is free",
    "off-frequency sources are judged literally as the statement words it: short (voltage) / open (current)",
]
N_LIST = {'quick': 7500, 'thorough': 60000}
ALL_CTORS = ['resistor', 'conductance', 'capacitor', 'inductance', 'impedance', 'admittance', 'dc_voltage_source', 'ac_voltage_source',
             'complex_voltage_source', 'periodic_voltage_source', 'dc_current_source', 'ac_current_source', 'complex_current_source',
             'periodic_current_source', 'lamp', 'resistive_load', 'short_circuit']


def edge_values(rng, c):
    """Occasionally replace a value by a physically meaningful boundary value."""
    a = c['args']
    r = rng.random()
    if c['ctor'] == 'resistor' and r < 0.25:
        a['R'] = rng.choice([0.0, math.inf, 1e-12])
        return 'edge'
    if c['ctor'] == 'conductance' and r < 0.2:
        a['G'] = 0.0
        return 'edge'
    if c['ctor'] in ('capacitor',) and r < 0.1:
        a['C'] = 0.0
        return 'edge'
    if c['ctor'] == 'impedance' and r < 0.08 and isinstance(a.get('Z'), list):
        a['Z'] = [a['Z'][0], rng.choice([math.inf, -math.inf])]      # an ideal open branch written as an infinite reactance: R + j inf
        return 'edge'
    if c['ctor'] in ('inductance',) and r < 0.1:
        a['L'] = 0.0
        return 'edge'
    if c['ctor'].endswith('source') and 'w' in a and r < 0.15:
        a['w'] = 0.0 if not c['ctor'].startswith('periodic') else a['w']
        return 'w0'
    return 'regular'


def generate(tier, seed, shard, nshards):
    rng = random.Random(f'C07/{seed}/{shard}')
    k = shard
    for _ in range(N_LIST[tier] // nshards):
        n = rng.randint(1, 7)
        nl = G.pick_labels(rng, G.NODE_POOL, rng.randint(2, 5))
        ids = G.pick_labels(rng, GC.COMP_IDS, n + 1)
        comps, classes = [], []
        for j in range(n):
            ctor = ALL_CTORS[k % len(ALL_CTORS)] if j == 0 else rng.choice(ALL_CTORS)
            k += 1
            a, b = rng.sample(nl, 2)
            if j > 0 and rng.random() < 0.08 and ctor in ('resistor', 'conductance', 'impedance', 'admittance', 'capacitor', 'inductance', 'lamp', 'resistive_load'):
                b = a                       # a component bridged out by its own terminals is still a component: one branch, same id
            lo = rng.randint(0, 3)
            c = GC.make_component(rng, ctor, ids[j], a, b, (lo, lo + 2), None, lossy=0.5)
            classes.append(edge_values(rng, c))
            if circdesc.is_periodic(c) and rng.random() < 0.3:
                c['args']['w'] = 2 * math.pi * 10 ** rng.uniform(8, 11.5)      # radio-frequency fundamentals: n*w0 is far beyond 2**53 * resolution
                c['fast'] = True
            comps.append(c)
        rng.shuffle(comps)
        has_ground = rng.random() < 0.6
        if has_ground:
            comps.insert(rng.randrange(len(comps) + 1), {'ctor': 'ground', 'id': ids[n], 'nodes': [rng.choice([x for c in comps for x in c['nodes']])], 'args': {}})
        w_res = rng.choice([1e-3, 1e-3, 1e-6, 0.5, 0.0])
        ws = [('zero', 0.0), ('random', 10 ** rng.uniform(-1, 4))]
        for c in comps:
            f = circdesc.source_frequency(c)
            if f is not None:
                ws += [('at-source', f), ('inside', f + 0.9 * w_res), ('outside', f + 1.1 * w_res)]
                if f - 1.1 * w_res > 0:
                    ws += [('inside', f - 0.9 * w_res), ('outside', f - 1.1 * w_res)]
            if circdesc.is_periodic(c):
                w0 = c['args']['w']
                nh = rng.choice([1, 2, 3, 5, 8, 21]) if not c.get('fast') else rng.randint(1, 400)
                ws += [('harmonic', nh * w0), ('harmonic-inside', nh * w0 + 0.9 * w_res), ('between-harmonics', (nh + 0.5) * w0)]
                if c.get('fast') or w_res == 0.0:
                    ws.append(('harmonic-exact', rng.randint(1, 400) * w0))
                if w_res < 0.4 * w0:
                    ws += [('harmonic-outside', nh * w0 + 1.1 * w_res)]
        rng.shuffle(ws)
        ws.sort(key=lambda x: x[0] != 'harmonic-exact')          # these survive the cut to four frequencies
        yield {'circuit': {'components': comps}, 'ws': ws[:4], 'w_res': w_res, 'classes': classes}


def judge(case, ctx, prefix='C07'):
    from CircuitCalculator.Circuit import circuit as cmod
    cd, w_res = case['circuit'], case['w_res']
    circ = call(circdesc.to_lib, cd)
    if raised(circ):
        ctx.violation(f'{prefix}/valid-circuit-rejected/{circ.key}', f'constructing the circuit raised {circ.text}', {})
        return
    g = circdesc.ground_of(cd)
    if circ.ground_node != g:
        ctx.violation(f'{prefix}/ground-node', f'Circuit.ground_node = {circ.ground_node!r}, expected {g!r}', {})
    expected_ids = [c['id'] for c in cd['components'] if c['ctor'] != 'ground']
    has_ground = any(c['ctor'] == 'ground' for c in cd['components'])
    if len(expected_ids) % 5 == 0:
        # 'no component is ever silently omitted' also holds for a component of a kind the conversion table does not know: such a
        # circuit is refused, or the component still shows up as a branch - with or without a ground symbol in the list
        from CircuitCalculator.Circuit.components import Component
        from CircuitCalculator.Circuit.circuit import Circuit
        pos = len(expected_ids) % (len(circ.components) + 1)
        odd = Component(type='transistor', id='__odd__', nodes=(circ.components[0].nodes[0], circ.components[-1].nodes[0]), value={})
        comps2 = list(circ.components); comps2.insert(pos, odd)
        r = call(lambda: cmod.transform_circuit(Circuit(comps2), 0.0))
        ctx.count('circuits_with_a_component_of_unknown_kind')
        if not raised(r) and '__odd__' not in [b.id for b in r.branches]:
            ctx.violation(f'{prefix}/branch-set/omitted:unknown-kind/{"with-ground" if has_ground else "no-ground"}', f'a component of unknown kind at position {pos} was accepted and left out of the network {[b.id for b in r.branches]!r}', {})
    nets = call(cmod.transform, circ, [w for _, w in case['ws']], w_res)
    for k, (wcls, w) in enumerate(case['ws']):
        net = call(cmod.transform_circuit, circ, w, w_res)
        ctx.count('transformations')
        ctx.count(f'wclass_{wcls}')
        for pos, c in enumerate(cd['components']):
            if c['ctor'] != 'ground':
                ctx.evaluated(repr((c['ctor'], wcls, min(pos, 3), has_ground, sorted(c['args'])[:0], _vclass(c))), True)
        if raised(net):
            ctor = _culprit(net, cd)
            ctx.violation(f'{prefix}/transform-raised/{net.key}', f'transform_circuit(w={w!r}, w_resolution={w_res!r}) raised {net.text}', {'w': w, 'ctors': ctor})
            continue
        if net.node_zero_label != g:
            ctx.violation(f'{prefix}/reference-node', f'node_zero_label = {net.node_zero_label!r}, expected {g!r}', {})
        got_ids = [b.id for b in net.branches]
        if sorted(got_ids) != sorted(expected_ids):
            missing = [i for i in expected_ids if i not in got_ids]
            extra = [i for i in got_ids if got_ids.count(i) > expected_ids.count(i)]
            mk = sorted({c['ctor'] for c in cd['components'] if c['id'] in missing})
            ctx.violation(f'{prefix}/branch-set/{"omitted:" + ",".join(mk) if missing else "duplicated-or-extra"}',
                          f'branches {got_ids!r} for components {expected_ids!r} at w={w!r}', {'missing': missing, 'extra': extra})
            continue
        byid = {}
        for b in net.branches:
            byid[b.id] = b
        for c in cd['components']:
            if c['ctor'] == 'ground':
                continue
            b = byid[c['id']]
            ctx.count('branches_checked')
            if [b.node1, b.node2] != list(c['nodes']):
                ctx.violation(f'{prefix}/terminal-order/{c["ctor"]}', f'{c["id"]!r}: branch nodes {(b.node1, b.node2)!r}, component nodes {c["nodes"]!r}', {})
                continue
            if on_gating_boundary(c, w, w_res):
                ctx.count('set_aside_on_the_resolution_boundary')      # |w - w_source| == w_resolution up to rounding: either answer is right
                continue
            rb = circdesc.ref_branch(c, w, w_res)
            periodic = circdesc.is_periodic(c)
            amp = abs(c['args'].get('V', c['args'].get('I', 0.0))) if periodic else 0.0
            why = branchlaw.check_element(b.element, rb, rel=1e-9 if periodic else 1e-12, abs_src=1e-9 * amp)
            if why:
                ctx.violation(f'{prefix}/unfaithful-branch/{c["ctor"]}/{wcls if c["ctor"].endswith("source") else "any-w"}',
                              f'{c["ctor"]} {c["id"]!r} args={c["args"]!r} at w={w!r} (w_res={w_res!r}): {why}', {'w': w, 'w_res': w_res, 'component': c})
        # list form must agree with the single form
        if not raised(nets) and k < len(nets):
            n2 = nets[k]
            if [(b.node1, b.node2, b.element) for b in n2.branches] != [(b.node1, b.node2, b.element) for b in net.branches] or n2.node_zero_label != net.node_zero_label:
                if not _nan_equal(n2, net):
                    ctx.violation(f'{prefix}/list-form-differs', f'transform(circuit, [..])[{k}] differs from transform_circuit(circuit, {w!r})', {})
    if raised(nets) and not any(True for _ in []):
        ctx.count('list_form_raised')
    ctx.sample(case)


def on_gating_boundary(c, w, w_res):
    """is the distance between w and the source's (harmonic) frequency equal to the resolution up to float rounding?"""
    f = circdesc.source_frequency(c)
    if circdesc.is_periodic(c):
        w0 = c['args']['w']
        f = round(w / w0) * w0
    if f is None or w == f:
        return False                       # the analysed frequency IS the float the harmonic has: distance exactly 0
    # the distance |w - f| is known up to the spacing of the floats around w (f itself is n*w0 rounded once)
    return abs(abs(w - f) - w_res) <= 4 * math.ulp(max(abs(w), abs(f)))


def _nan_equal(n1, n2):
    return repr([(b.node1, b.node2, b.element) for b in n1.branches]) == repr([(b.node1, b.node2, b.element) for b in n2.branches])


def _vclass(c):
    a = c['args']
    out = []
    for k in ('R', 'G', 'C', 'L'):
        if k in a:
            v = a[k]
            out.append(k + ('0' if v == 0 else ('inf' if v == math.inf else '+')))
    return tuple(out)


def _culprit(r, cd):
    return sorted({c['ctor'] for c in cd['components']})


def guards(m, tier):
    c = m['counters']
    r = []
    if c.get('branches_checked', 0) < (5000 if tier == 'quick' else 100000):
        r.append(f"only {c.get('branches_checked', 0)} branches checked")
    for k in ('wclass_at-source', 'wclass_inside', 'wclass_outside', 'wclass_harmonic', 'wclass_zero'):
        if c.get(k, 0) < 30:
            r.append(f'{k} reached only {c.get(k, 0)} times')
    return r
