"""C05 - power is conserved and has the physically right sign."""
from __future__ import annotations
import math, random
import numpy as np
from ..gen import networks as G
from ..gen import circuits as GC
from .. import netdesc, circdesc
from ..oracles import netsolve
from ..observe import call, raised

TITLE = "C05 complex powers balance (Tellegen), element sign rules, P = V conj(I) / half / V I / v(t) i(t)"
LEVEL = 'exploration'
RULE = ("(a) well-posed random networks (C01 generator), (b) random RLC component circuits analysed with DCSolution and ComplexSolution "
        "(peak and RMS) at 0, source frequencies and random frequencies, (c) TimeDomainSolution on a 24-point time grid, (d) "
        "TransientSolution sample-wise; per solution: sum of powers in the stated convention relative to sum |P|, P against the same "
        "solution's own V and I, resistor/inductor/capacitor sign rules. Non-trivial: non-zero power somewhere; distinct by (signature, "
        "solution kind, w class).")
ASSUMPTIONS = [
    "monitors relate outputs of ONE library solution object to each other; the exact reference only decides well-posedness/conditioning",
    "linear (lossy) sources are counted as delivered power (generator convention), all other elements in the passive convention",
    "relative tolerance 1e-9 + 256 kappa 2^-53 on sum|P| (balance) and on |V||I| (definition clauses)",
]
N = {'quick': {'net': 6000, 'circ': 8000, 'time': 800, 'transient': 640}, 'thorough': {'net': 40000, 'circ': 50000, 'time': 5000, 'transient': 4000}}
W_RES = 1e-3


def generate(tier, seed, shard, nshards):
    rng = random.Random(f'C05/{seed}/{shard}')
    n = N[tier]
    for _ in range(n['net'] // nshards):
        yield {'kind': 'net', 'net': G.random_network(rng, max_nodes=6, max_branches=11)}
    for _ in range(n['circ'] // nshards):
        shared = [G.value(rng, 0, 4) for _ in range(2)]
        cd = GC.random_circuit(rng, freqs=shared, n_reactive=(1, 3), lossy=0.0 if rng.random() < 0.5 else 0.4)
        fs = sorted({f for f in (circdesc.source_frequency(c) for c in cd['components']) if f is not None}) or [0.0]
        w = rng.choice(fs + [10 ** rng.uniform(0, 4)])
        yield {'kind': 'circ', 'circuit': cd, 'w': w, 'mode': rng.choice(['dc', 'peak', 'rms'])}
    for _ in range(n['time'] // nshards):
        w0 = G.value(rng, 1, 3)
        cd = GC.random_circuit(rng, max_nodes=4, max_comps=6, freqs=[w0, 2 * w0, 0.0], n_reactive=(1, 2), lossy=0.0,
                               sources=GC.SRC_BASIC + ['periodic_voltage_source', 'periodic_current_source'], n_sources=(1, 2))
        yield {'kind': 'time', 'circuit': cd, 'w_max': 6.5 * w0, 'T': 2 * math.pi / w0}
    from .C12 import transient_case
    for _ in range(n['transient'] // nshards):
        c = transient_case(rng)
        if c is not None:
            yield {'kind': 'transient', **c}


def lossy_off_frequency(cd, w):
    for c in cd['components']:
        f = circdesc.source_frequency(c)
        a = c['args']
        if f is not None and (a.get('R', 0) != 0 or a.get('G', 0) != 0) and abs(w - f) > 0.95 * W_RES:
            return True
    return False


def balance(ctx, prefix, kind, ids_sign, P, tol, floor=0.0):
    """sum of powers in the stated convention relative to sum |P| (never below the natural power scale of the inputs)"""
    tot = sum(s * P[i] for i, s in ids_sign.items())
    mag = max(sum(abs(P[i]) for i in ids_sign), floor)
    ctx.maxstat(f'max_power_imbalance_{kind}', abs(tot) / mag if mag else 0.0)
    if mag and abs(tot) > tol * mag * max(4, len(ids_sign)):
        ctx.violation(f'{prefix}/{kind}/power-not-conserved', f'sum of powers = {tot!r} against sum|P| = {mag!r}', {'powers': {k: P[k] for k in ids_sign}})
    ctx.count(f'balance_checked_{kind}')
    return mag


def judge(case, ctx, prefix='C05'):
    k = case['kind']
    if k == 'net':
        return judge_net(case, ctx, prefix)
    if k == 'circ':
        return judge_circ(case, ctx, prefix)
    if k == 'time':
        return judge_time(case, ctx, prefix)
    if k == 'transient':
        return judge_transient(case, ctx, prefix)


def judge_net(case, ctx, prefix):
    from CircuitCalculator.Network.NodalAnalysis.bias_point_analysis import nodal_analysis_bias_point_solver
    desc = case['net']
    refd = netsolve.reference(desc)
    if refd is None or refd['kappa'] > netsolve.KAPPA_MAX:
        ctx.count('set_aside')
        return
    net = call(netdesc.to_lib, desc)
    sol = call(nodal_analysis_bias_point_solver, net) if not raised(net) else net
    if raised(sol):
        ctx.violation(f'{prefix}/net/solve-raised/{sol.key}', sol.text, {})
        return
    P, sign = {}, {}
    for b in desc['branches']:
        p, v, i = call(sol.get_power, b['id']), call(sol.get_voltage, b['id']), call(sol.get_current, b['id'])
        if any(raised(x) for x in (p, v, i)):
            bad = [x for x in (p, v, i) if raised(x)][0]
            ctx.violation(f'{prefix}/net/query-raised/{bad.key}', bad.text, {})
            return
        P[b['id']] = complex(p)
        sign[b['id']] = -1 if netsolve.feature_of(b) in ('lin_v', 'lin_i') else 1
        if abs(complex(p) - complex(v) * complex(i).conjugate()) > refd['tol'] * max(abs(complex(v)) * abs(complex(i)), refd['s_phi'] * refd['s_i'] * 1e-6):
            ctx.violation(f'{prefix}/net/definition', f'P({b["id"]!r}) = {p!r} but V conj(I) = {complex(v) * complex(i).conjugate()!r}', {})
        # element laws on the reported power
        if b['ctor'] == 'resistor' and all(not isinstance(b[x], list) for x in ('R',)) and not any(isinstance(x.get(kk), list) for x in desc['branches'] for kk in ('V', 'I', 'Z', 'Y')):
            pr = complex(p)
            if pr.real < -refd['tol'] * refd['s_phi'] * refd['s_i'] or abs(pr.imag) > refd['tol'] * refd['s_phi'] * refd['s_i']:
                ctx.violation(f'{prefix}/net/resistor-sign', f'resistor {b["id"]!r} reports power {pr!r}', {})
    mag = balance(ctx, prefix, 'net', sign, P, refd['tol'], refd['s_phi'] * refd['s_i'])
    # the power balance does not depend on how the equations are numbered: the same network solved with a caller's node / source numbering
    from CircuitCalculator.Network.NodalAnalysis.bias_point_analysis import NodalAnalysisBiasPointSolution
    from .. import mappers
    sol2 = call(NodalAnalysisBiasPointSolution, net, **mappers.custom_numbering(len(desc['branches']) * 31 + len(str(desc['ref']))))
    if raised(sol2):
        ctx.violation(f'{prefix}/net-custom-numbering/solve-raised/{sol2.key}', sol2.text, {})
    else:
        P2 = {}
        for b in desc['branches']:
            p = call(sol2.get_power, b['id'])
            if raised(p):
                ctx.violation(f'{prefix}/net-custom-numbering/query-raised/{p.key}', p.text, {})
                break
            P2[b['id']] = complex(p)
        else:
            balance(ctx, prefix, 'net-custom-numbering', sign, P2, refd['tol'], refd['s_phi'] * refd['s_i'])
            ctx.count('custom_numbering_balances')
    ctx.evaluated(netdesc.signature(desc) + 'net', any(abs(x) > 0 for x in P.values()))
    ctx.sample(case)


def judge_circ(case, ctx, prefix):
    from CircuitCalculator.Circuit.solution import ComplexSolution, DCSolution
    cd, w, mode = case['circuit'], case['w'], case['mode']
    if mode == 'dc':
        w = 0.0
    if lossy_off_frequency(cd, w):
        ctx.count('set_aside')
        return
    ref_net = circdesc.ref_network(cd, w, W_RES)
    refd = netsolve.reference_from_ref(ref_net, {c['id']: c['ctor'] for c in cd['components']})
    if refd is None or refd['kappa'] > netsolve.KAPPA_MAX:
        ctx.count('set_aside')
        return
    circ = call(circdesc.to_lib, cd)
    if raised(circ):
        ctx.violation(f'{prefix}/circ/valid-circuit-rejected/{circ.key}', circ.text, {})
        return
    sol = call(DCSolution, circ) if mode == 'dc' else call(ComplexSolution, circuit=circ, w=w, peak_values=(mode == 'peak'))
    if raised(sol):
        ctx.violation(f'{prefix}/{mode}/solve-raised/{sol.key}', sol.text, {})
        return
    scale = 1.0 if mode != 'rms' else 1 / math.sqrt(2)
    pscale = refd['s_phi'] * refd['s_i'] * scale * scale
    tol = refd['tol']
    P, sign = {}, {}
    for b in ref_net['branches']:
        cid = b['id']
        ctor = refd['features'][cid]
        p, v, i = call(sol.get_power, cid), call(sol.get_voltage, cid), call(sol.get_current, cid)
        if any(raised(x) for x in (p, v, i)):
            bad = [x for x in (p, v, i) if raised(x)][0]
            ctx.violation(f'{prefix}/{mode}/query-raised/{bad.key}', bad.text, {})
            return
        p, v, i = complex(p), complex(v), complex(i)
        P[cid] = p
        sign[cid] = -1 if b['kind'] in ('LV', 'LI') else 1
        expect = v * i if mode == 'dc' else (0.5 * v * i.conjugate() if mode == 'peak' else v * i.conjugate())
        if abs(p - expect) > tol * max(abs(v) * abs(i), pscale * 1e-6):
            ctx.violation(f'{prefix}/{mode}/definition', f'P({cid!r}) = {p!r}, but from the same solution {"V I" if mode == "dc" else ("V conj(I)/2" if mode == "peak" else "V conj(I)")} = {expect!r}', {})
        lim = 4 * tol * pscale
        if mode != 'dc':
            if ctor in ('resistor', 'conductance', 'lamp', 'resistive_load'):
                R = 1 / complex(tableau_y(b)) if tableau_y(b) else None
                if p.real < -lim or abs(p.imag) > lim:
                    ctx.violation(f'{prefix}/{mode}/resistor-sign', f'{ctor} {cid!r} reports power {p!r}', {})
                elif R is not None and ctor == 'resistor':
                    pe = abs(i) ** 2 * R.real * (0.5 if mode == 'peak' else 1.0)
                    if abs(p.real - pe) > tol * max(abs(pe), pscale * 1e-6) * 4:
                        ctx.violation(f'{prefix}/{mode}/resistor-i2r', f'resistor {cid!r}: P = {p!r} but |I|^2 R = {pe!r}', {})
                ctx.count('resistor_rules_checked')
            elif ctor == 'inductance' and w > 0:
                if abs(p.real) > lim or p.imag < -lim:
                    ctx.violation(f'{prefix}/{mode}/inductor-sign', f'inductor {cid!r} reports power {p!r} (must be purely reactive, Q >= 0)', {})
                ctx.count('reactive_rules_checked')
            elif ctor == 'capacitor' and w > 0:
                if abs(p.real) > lim or p.imag > lim:
                    ctx.violation(f'{prefix}/{mode}/capacitor-sign', f'capacitor {cid!r} reports power {p!r} (must be purely reactive, Q <= 0)', {})
                ctx.count('reactive_rules_checked')
    mag = balance(ctx, prefix, mode, sign, P, tol, pscale)
    if mode in ('rms', 'peak'):
        # peak_values is a public field read at every query: the same solved object switched to the other convention must report
        # the power that belongs to the voltages and currents it now reports
        other = mode == 'rms'
        try:
            sol.peak_values = other
            switched = True
        except Exception:
            switched = False
        if switched:
            ctx.count('solutions_switched_between_rms_and_peak')
            for b in ref_net['branches'][:3]:
                cid = b['id']
                p, v, i = call(sol.get_power, cid), call(sol.get_voltage, cid), call(sol.get_current, cid)
                if any(raised(x) for x in (p, v, i)):
                    break
                p, v, i = complex(p), complex(v), complex(i)
                expect = 0.5 * v * i.conjugate() if other else v * i.conjugate()
                if abs(p - expect) > tol * max(abs(v) * abs(i), pscale * 1e-6) * 2:
                    ctx.violation(f'{prefix}/{mode}/definition-after-switching-the-convention', f'P({cid!r}) = {p!r} after peak_values was set to {other}, but the same object now reports V, I with {"V conj(I)/2" if other else "V conj(I)"} = {expect!r}', {})
                    break
    ctx.evaluated(circdesc.signature(cd, (mode, w == 0)), any(abs(x) > 0 for x in P.values()))
    ctx.sample(case)


def tableau_y(b):
    from ..ref.tableau import normalise
    kind, p = normalise(b)
    if kind == 'Z':
        return 1 / complex(p['Z'])
    if kind == 'Y':
        return complex(p['Y'])
    return None


def judge_time(case, ctx, prefix):
    from CircuitCalculator.Circuit.solution import TimeDomainSolution
    from CircuitCalculator.Circuit.circuit import frequency_components
    cd = case['circuit']
    circ = call(circdesc.to_lib, cd)
    if raised(circ):
        ctx.violation(f'{prefix}/time/valid-circuit-rejected/{circ.key}', circ.text, {})
        return
    ws = call(frequency_components, circ, case['w_max'])
    if raised(ws):
        ctx.violation(f'{prefix}/time/frequency-components-raised/{ws.key}', ws.text, {})
        return
    worst_tol, s_p = 0.0, 0.0
    refs = {}
    for w in ws:
        refd = netsolve.reference_from_ref(circdesc.ref_network(cd, w, W_RES))
        if refd is None or refd['kappa'] > 1e6:
            ctx.count('set_aside')
            return
        worst_tol = max(worst_tol, refd['tol'])
        s_p += refd['s_phi'] * refd['s_i']
        refs[float(w)] = refd
    sol = call(TimeDomainSolution, circ, case['w_max'])
    if raised(sol):
        ctx.violation(f'{prefix}/time/solve-raised/{sol.key}', sol.text, {})
        return
    t = np.linspace(0.0, 2 * case['T'], 24) + 0.0123 * case['T']
    tot = np.zeros_like(t)
    mag = np.zeros_like(t)
    for c in cd['components']:
        if c['ctor'] == 'ground':
            continue
        fp, fv, fi = (call(g, c['id']) for g in (sol.get_power, sol.get_voltage, sol.get_current))
        vals = [call(f, t) if not raised(f) else f for f in (fp, fv, fi)]
        if any(raised(x) for x in vals):
            bad = [x for x in vals if raised(x)][0]
            ctx.violation(f'{prefix}/time/query-raised/{bad.key}', bad.text, {})
            return
        p, v, i = (np.asarray(x, dtype=float).reshape(-1) for x in vals)
        lim = worst_tol * len(ws) ** 2 * max(float(np.max(np.abs(v)) * np.max(np.abs(i))), s_p * 1e-6) * 8
        if np.max(np.abs(p - v * i)) > lim:
            ctx.violation(f'{prefix}/time/definition', f'p(t) of {c["id"]!r} differs from v(t) i(t) by {float(np.max(np.abs(p - v * i)))!r}', {})
        lossy = (c['args'].get('R', 0) != 0 or c['args'].get('G', 0) != 0) and c['ctor'].endswith('source')
        tot += (-1 if lossy else 1) * p
        mag += np.abs(p)
    m = max(float(np.max(mag)), s_p)
    if m and float(np.max(np.abs(tot))) > worst_tol * len(ws) ** 2 * m * 16:
        ctx.violation(f'{prefix}/time/power-not-conserved', f'sum of instantaneous powers reaches {float(np.max(np.abs(tot)))!r} against {m!r}', {})
    ctx.count('balance_checked_time')
    spectrum_power_clause(ctx, prefix, cd, circ, case['w_max'], refs, worst_tol * 16 * max(s_p, 1e-300))
    ctx.evaluated(circdesc.signature(cd, ('time', len(ws))), float(np.max(mag)) > 0)
    ctx.sample({k: v for k, v in case.items()})


def spectrum_power_clause(ctx, prefix, cd, circ, w_max, refs, lim):
    """power lines of FrequencyDomainSolution: one-sided line k = 1/2 V_k conj(I_k) (peak phasors); in the two-sided spectrum the
    lines at +w_k and -w_k are complex conjugates and add up to the average power Re(1/2 V_k conj(I_k)) carried at that frequency"""
    from CircuitCalculator.Circuit.solution import FrequencyDomainSolution
    comps = [c for c in cd['components'] if c['ctor'] != 'ground']
    for one_sided in (True, False):
        side = 'one-sided' if one_sided else 'two-sided'
        fds = call(FrequencyDomainSolution, circuit=circ, w_max=w_max, one_sided=one_sided)
        if raised(fds):
            ctx.violation(f'{prefix}/spectrum/{side}/raised/{fds.key}', fds.text, {})
            continue
        for c in comps:
            r = call(fds.get_power, c['id'])
            if raised(r):
                ctx.violation(f'{prefix}/spectrum/{side}/query-raised/{r.key}', r.text, {})
                return
            wl, pl = np.asarray(r[0], dtype=float).reshape(-1), np.asarray(r[1], dtype=complex).reshape(-1)
            if wl.shape != pl.shape:
                ctx.violation(f'{prefix}/spectrum/{side}/malformed', f'{wl.shape} frequencies for {pl.shape} power values', {})
                return
            for f, refd in refs.items():
                S = 0.5 * refd['rep']['P'][c['id']]
                pos = [p for w_, p in zip(wl, pl) if abs(w_ - f) <= W_RES]
                neg = [p for w_, p in zip(wl, pl) if abs(w_ + f) <= W_RES and f > 0]
                ctx.count('spectral_power_lines_checked')
                if len(pos) != 1 or (not one_sided and f > 0 and len(neg) != 1):
                    ctx.violation(f'{prefix}/spectrum/{side}/line-count', f'{len(pos)} line(s) at {f!r} and {len(neg)} at {-f!r} in the power spectrum of {c["id"]!r}', {})
                    return
                if one_sided or f == 0:
                    if abs(pos[0] - S) > lim:
                        ctx.violation(f'{prefix}/spectrum/{side}/definition/{"dc-line" if f == 0 else "ac-line"}', f'power line of {c["id"]!r} at w={f!r} is {pos[0]!r}, 1/2 V conj(I) = {S!r}', {})
                        return
                else:
                    if abs(neg[0] - pos[0].conjugate()) > lim:
                        ctx.violation(f'{prefix}/spectrum/{side}/not-conjugate-symmetric', f'{c["id"]!r}: P(+{f!r}) = {pos[0]!r}, P(-{f!r}) = {neg[0]!r}', {})
                        return
                    if abs((pos[0] + neg[0]) - S.real) > lim:
                        ctx.violation(f'{prefix}/spectrum/{side}/lines-do-not-add-up-to-average-power', f'{c["id"]!r} at w={f!r}: P(+w) + P(-w) = {pos[0] + neg[0]!r}, average power at that frequency Re(1/2 V conj(I)) = {S.real!r}', {})
                        return


def judge_transient(case, ctx, prefix):
    from .C12 import run_transient
    out = run_transient(case, ctx, prefix + '/transient', want=('V', 'I', 'P'))
    if out is None:
        return
    cd = out['cd']
    # Tellegen's theorem holds for the reported numbers as far as KCL/KVL hold for them; their rounding error follows the
    # conditioning of the DC matrix the model builder inverts (same policy as C10-C12)
    from ..oracles import dynamics
    k_build = dynamics.construction_kappa(cd)
    if not k_build <= 1e8:
        ctx.count('set_aside_construction_ill_conditioned')
        return
    bal_tol = max(1e-6, 256 * k_build * 2.0 ** -53)          # currents through micro-ohm resistors are differences of nearly equal potentials
    tot, mag = 0.0, 0.0
    for c in cd['components']:
        if c['ctor'] == 'ground':
            continue
        p, v, i = out['P'][c['id']], out['V'][c['id']], out['I'][c['id']]
        s = max(float(np.max(np.abs(v)) * np.max(np.abs(i))), out['sig_v'] * out['sig_i'] * 1e-6)
        if np.max(np.abs(p - v * i)) > 1e-9 * max(s, 1e-300):
            ctx.violation(f'{prefix}/transient/definition', f'p[k] of {c["id"]!r} differs from v[k] i[k] by {float(np.max(np.abs(p - v * i)))!r}', {})
        tot = tot + p
        mag = mag + np.abs(p)
    m = max(float(np.max(mag)), out['sig_v'] * out['sig_i'])
    if m and float(np.max(np.abs(tot))) > bal_tol * m:
        ctx.violation(f'{prefix}/transient/power-not-conserved', f'sum of sample-wise powers reaches {float(np.max(np.abs(tot)))!r} against {m!r}', {})
    ctx.count('balance_checked_transient')
    ctx.evaluated(circdesc.signature(cd, ('transient',)), float(np.max(mag)) > 0)


def guards(m, tier):
    c = m['counters']
    r = []
    q = tier == 'quick'
    for k, need in (('balance_checked_net', 600), ('balance_checked_dc', 100), ('balance_checked_peak', 100), ('balance_checked_rms', 100),
                    ('balance_checked_time', 40), ('balance_checked_transient', 30), ('resistor_rules_checked', 300), ('reactive_rules_checked', 150)):
        need = need if q else need * 10
        if c.get(k, 0) < need:
            r.append(f'{k} = {c.get(k, 0)} (<{need})')
    return r
