"""C20 - analyses are pure, repeatable functions of the circuit description (histories)."""
from __future__ import annotations
import copy, json, math, os, random, subprocess, sys, tempfile
import numpy as np
from ..gen import networks as G
from ..gen import circuits as GC
from .. import netdesc, circdesc, purity
from ..observe import call, raised
from . import C10, C12, C17

TITLE = "C20 every call in a shared-object history equals its isolated (fresh interpreter) result; no argument, default or table is mutated"
LEVEL = 'exploration'
RULE = ("per history a pool of 4 networks, 4 component circuits (2 of them dynamic RLC), 3 loader/serialiser documents and 2 waveforms; "
        "~45 public operations (solvers, port impedances, zeroing/removal transformers with SHARED keep lists, transform/frequency "
        "lists, DC/complex/time/frequency-domain solutions, state-space models with SHARED value dictionaries, transient runs with a "
        "shared input dict and time array, loaders and (de)serialisers on SHARED dictionaries, Fourier coefficients); the isolated "
        "result of every (operation, pool item) is computed twice in fresh interpreters (forward and reverse order, fresh deep copies) "
        "and must agree; then histories of 80-240 random calls with repeats and interleavings run on shared objects and every result is "
        "compared with the baseline; deep fingerprints of all argument objects before/after each call; __defaults__ and module tables of "
        "all repository modules fingerprinted along the way. Non-trivial: every executed call; distinct by (operation, pool item kind, "
        "position class in the history).")
ASSUMPTIONS = [
    "results are canonicalised (numbers, arrays, element/branch fields, sampled time functions) and compared at 1e-12 relative to the largest magnitude of the same result",
    "isolation baseline = fresh interpreter, fresh objects built from the JSON description; two baselines in opposite order must agree with each other",
]
N_HIST = {'quick': 2, 'thorough': 14}
HIST_LEN = {'quick': (80, 140), 'thorough': (120, 240)}
REPO_MODULES = ['CircuitCalculator.Network.transformers', 'CircuitCalculator.Network.loaders', 'CircuitCalculator.Network.elements',
                'CircuitCalculator.Network.network', 'CircuitCalculator.Network.NodalAnalysis.state_space_model',
                'CircuitCalculator.Network.NodalAnalysis.node_analysis', 'CircuitCalculator.Network.NodalAnalysis.bias_point_analysis',
                'CircuitCalculator.Network.NodalAnalysis.label_mapping', 'CircuitCalculator.Network.NodalAnalysis.solution',
                'CircuitCalculator.dump_load', 'CircuitCalculator.Circuit.solution', 'CircuitCalculator.Circuit.circuit',
                'CircuitCalculator.Circuit.transformers', 'CircuitCalculator.Circuit.components', 'CircuitCalculator.Circuit.dump_load',
                'CircuitCalculator.Circuit.impedance', 'CircuitCalculator.Circuit.state_space_model',
                'CircuitCalculator.SignalProcessing.periodic_functions', 'CircuitCalculator.SignalProcessing.state_space_model']


# ---------------------------------------------------------------------------------------------------------------
def canon(x, depth=0):
    if depth > 12:
        return 'deep'
    if x is None or isinstance(x, (bool, str)):
        return x
    if isinstance(x, (int, np.integer)):
        return int(x)
    if isinstance(x, (float, np.floating)):
        f = float(x)
        return f if math.isfinite(f) else repr(f)
    if isinstance(x, (complex, np.complexfloating)):
        return ['c', canon(complex(x).real), canon(complex(x).imag)]
    if isinstance(x, np.ndarray):
        return ['arr', list(x.shape), [canon(v, depth + 1) for v in x.reshape(-1).tolist()]]
    if isinstance(x, dict):
        return ['dict', [[str(k), canon(v, depth + 1)] for k, v in x.items()]]
    if isinstance(x, (list, tuple)):
        return [canon(v, depth + 1) for v in x]
    if hasattr(x, 'branches') and hasattr(x, 'node_zero_label'):
        return ['network', x.node_zero_label, [[b.node1, b.node2, canon(b.element, depth + 1)] for b in x.branches]]
    if hasattr(x, 'Z') and hasattr(x, 'V') and hasattr(x, 'name'):
        return ['element', x.name, getattr(x, 'type', ''), canon(_num(x, 'Z')), canon(_num(x, 'Y')), canon(_num(x, 'V')), canon(_num(x, 'I'))]
    if hasattr(x, 'components') and hasattr(x, 'ground_node'):
        return ['circuit', x.ground_node, [canon(c, depth + 1) for c in x.components]]
    if hasattr(x, 'type') and hasattr(x, 'nodes') and hasattr(x, 'value'):
        return ['component', x.type, x.id, list(x.nodes), canon(dict(x.value), depth + 1)]
    return ['repr', repr(x)[:200]]


def _num(e, k):
    try:
        return complex(getattr(e, k))
    except Exception:
        return 'n/a'


def flat_numbers(c, out):
    if isinstance(c, float):
        out.append(abs(c))
    elif isinstance(c, list):
        for v in c:
            flat_numbers(v, out)


def same(a, b, scale=None, path=''):
    if scale is None:
        nums = []
        flat_numbers(a, nums); flat_numbers(b, nums)
        scale = max(nums) if nums else 0.0
    if isinstance(a, float) and isinstance(b, (float, int)) or isinstance(b, float) and isinstance(a, (float, int)):
        return None if abs(a - b) <= 1e-12 * scale else f'{path}: {a!r} != {b!r}'
    if type(a) is not type(b):
        return f'{path}: {a!r} != {b!r}'
    if isinstance(a, list):
        if len(a) != len(b):
            return f'{path}: length {len(a)} != {len(b)}'
        for i, (x, y) in enumerate(zip(a, b)):
            r = same(x, y, scale, f'{path}[{i}]')
            if r:
                return r
        return None
    return None if a == b else f'{path}: {a!r} != {b!r}'


# ---------------------------------------------------------------------------------------------------------------
class Item:
    """one pool entry: the JSON description and the shared live objects built from it"""
    def __init__(self, desc):
        self.desc = desc
        self.kind = desc['kind']
        self.objs = {}
        getattr(self, '_build_' + self.kind)()

    def _build_net(self):
        d = self.desc['net']
        self.objs['net'] = netdesc.to_lib(d)
        by = {b.id: b for b in self.objs['net'].branches}
        self.objs['keep'] = [by[i].element for i in self.desc['keep']]
        mode = self.desc.get('keep_mode', 'auto')
        if mode == 'twin' or (mode == 'auto' and len(self.desc['net']['branches']) % 2):
            # exemption list taken from a second, independently built copy of the same description (equal, not identical)
            by2 = {b.id: b for b in netdesc.to_lib(d).branches}
            self.objs['keep'] = [by2[i].element for i in self.desc['keep']]
        ns = netdesc.nodes(d)
        self.objs['pair'] = (ns[0], ns[-1])
        self.objs['elem'] = d['branches'][len(d['branches']) // 2]['id']
        from CircuitCalculator.Network.NodalAnalysis import node_analysis as na
        try:                                     # a system of equations kept by the caller and solved repeatedly
            self.objs['Ymat'] = np.array(na.nodal_analysis_coefficient_matrix(self.objs['net']), dtype=complex)
            self.objs['Ivec'] = np.array(na.nodal_analysis_constants_vector(self.objs['net']), dtype=complex)
        except Exception:
            self.objs['Ymat'], self.objs['Ivec'] = np.eye(2, dtype=complex), np.ones(2, dtype=complex)

    def _build_circ(self):
        cd = self.desc['circuit']
        self.objs['circ'] = circdesc.to_lib(cd)
        self.objs['w'] = self.desc['w']
        self.objs['ws'] = np.array([0.0, self.desc['w'], 3.3 * self.desc['w']])
        ns = circdesc.nodes(cd)
        self.objs['pair'] = (ns[0], ns[-1])
        comps = [c for c in cd['components'] if c['ctor'] != 'ground']
        self.objs['ids'] = [c['id'] for c in comps]
        self.objs['nodes'] = ns
        if self.desc.get('dynamic'):
            c = self.objs['circ']
            self.objs['c_values'] = {x.id: float(x.value['C']) for x in c.components if x.type == 'capacitor'}
            self.objs['l_values'] = {x.id: float(x.value['L']) for x in c.components if x.type == 'inductance'}
            self.objs['tin'] = np.arange(self.desc['n'] + 1) * self.desc['h']
            self.objs['input'] = {sid: C12.make_input(spec, self.desc['h'], 0.0) for sid, spec in self.desc['inputs'].items()}

    def _build_doc(self):
        self.objs['entries'] = copy.deepcopy(self.desc.get('entries'))
        self.objs['doc'] = C17._restore(copy.deepcopy(self.desc.get('doc')))
        self.objs['cdoc'] = C17._restore(copy.deepcopy(self.desc.get('cdoc')))
        self.objs['polar'] = copy.deepcopy(self.desc.get('polar'))

    def _build_schem(self):
        self.objs['sdict'] = copy.deepcopy(self.desc['sdict'])

    def _build_wave(self):
        from CircuitCalculator.SignalProcessing.periodic_functions import periodic_function
        d = self.desc
        self.objs['pf'] = periodic_function(d['wave'])(period=d['period'], amplitude=d['amplitude'], phase=d['phase'], offset=d['offset'])


def solve_all(sol, nodes, ids):
    return [[sol.get_potential(n) for n in nodes], [sol.get_voltage(i) for i in ids], [sol.get_current(i) for i in ids], [sol.get_power(i) for i in ids]]


def ops_for(kind, desc):
    """name -> callable(objs) returning a canonicalisable result; argument objects are taken from objs (shared)"""
    from CircuitCalculator.Network import transformers as trf
    from CircuitCalculator.Network.NodalAnalysis import node_analysis as na, bias_point_analysis as bpa
    from CircuitCalculator.Network.NodalAnalysis import state_space_model as nss
    from CircuitCalculator.Network import loaders
    from CircuitCalculator import dump_load as dl
    from CircuitCalculator.Circuit import circuit as cc, solution as S, impedance as cimp, state_space_model as css, dump_load as cdl
    from CircuitCalculator.SignalProcessing import periodic_functions as pfm
    t = np.linspace(0.0, 0.01, 7)
    if kind == 'net':
        nd = netdesc.nodes(desc['net']); ids = [b['id'] for b in desc['net']['branches']]
        return {
            'solve': lambda o: solve_all(bpa.nodal_analysis_bias_point_solver(o['net']), nd, ids),
            'open_circuit_impedance': lambda o: na.open_circuit_impedance(o['net'], *o['pair']),
            'element_impedance': lambda o: na.element_impedance(o['net'], o['elem']),
            'open_circuit_voltage': lambda o: bpa.open_circuit_voltage(o['net'], *o['pair']),
            'coefficient_matrix': lambda o: na.nodal_analysis_coefficient_matrix(o['net']),
            'constants_vector': lambda o: na.nodal_analysis_constants_vector(o['net']),
            'short_circuitify': lambda o: trf.short_circuitify_voltage_sources(o['net'], o['keep']),
            'open_circuitify': lambda o: trf.open_circuitify_current_sources(o['net'], o['keep']),
            'short_circuitify_default': lambda o: trf.short_circuitify_voltage_sources(o['net']),
            'remove_shorts': lambda o: trf.remove_short_circuit_elements(o['net'], o['keep']),
            'remove_shorts_default': lambda o: trf.remove_short_circuit_elements(o['net']),
            'remove_opens': lambda o: trf.remove_open_circuit_elements(o['net']),
            'remove_ideal_current_sources': lambda o: trf.remove_ideal_current_sources(o['net'], o['keep']),
            'remove_ideal_voltage_sources': lambda o: trf.remove_ideal_voltage_sources(o['net'], o['keep']),
            'passive_network': lambda o: trf.passive_network(o['net'], o['keep']),
            'passive_network_default': lambda o: trf.passive_network(o['net']),
            'switch_ground': lambda o: trf.switch_ground_node(o['net'], o['pair'][1]),
            'remove_element': lambda o: trf.remove_element(o['net'], o['elem']),
            'calculate_node_voltages0': lambda o: na.calculate_node_voltages0(o['Ymat'], o['Ivec']),
            'calculate_node_voltages0_transposed_view': lambda o: na.calculate_node_voltages0(o['Ymat'].T, o['Ivec']),
        }
    if kind == 'circ':
        ops = {
            'transform_circuit': lambda o: cc.transform_circuit(o['circ'], o['w']),
            'transform_default': lambda o: cc.transform(o['circ']),
            'transform_list': lambda o: cc.transform(o['circ'], [0.0, o['w']]),
            'frequency_components': lambda o: cc.frequency_components(o['circ'], 5 * o['w']),
            'dc_solution': lambda o: solve_all(S.DCSolution(o['circ']), o['nodes'], o['ids']),
            'complex_solution': lambda o: solve_all(S.ComplexSolution(circuit=o['circ'], w=o['w'], peak_values=True), o['nodes'], o['ids']),
            'complex_solution_rms': lambda o: solve_all(S.ComplexSolution(circuit=o['circ'], w=o['w']), o['nodes'], o['ids']),
            'time_domain': lambda o: [S.TimeDomainSolution(o['circ'], 4 * o['w']).get_voltage(i)(t) for i in o['ids'][:3]],
            'frequency_domain': lambda o: [list(S.FrequencyDomainSolution(circuit=o['circ'], w_max=4 * o['w'], one_sided=s).get_current(o['ids'][0])) for s in (True, False)],
            'impedance_sweep': lambda o: cimp.open_circuit_impedance(o['circ'], o['pair'][0], o['pair'][1], o['ws']),
            'element_impedance_sweep': lambda o: cimp.element_impedance(o['circ'], o['ids'][0], o['ws']),
        }
        if desc.get('dynamic'):
            def ssm(o):
                m = css.state_space_model(o['circ'], o['nodes'], o['ids'], o['ids'])
                return [m.A, m.B, m.C, m.D]

            def nssm(o):
                m = nss.nodal_state_space_model(cc.transform_circuit(o['circ'], w=0), c_values=o['c_values'], l_values=o['l_values'])
                return [m.A, m.B, m.C, m.D, list(m.sources)]

            def tr(o):
                s = S.TransientSolution(circuit=o['circ'], tin=o['tin'], input=o['input'])
                return [s.get_voltage(i)[1] for i in o['ids'][:3]] + [s.get_current(o['ids'][-1])[1], s.get_potential(o['nodes'][-1])[1]]
            ops.update({'state_space_model': ssm, 'nodal_state_space_model': nssm, 'transient': tr,
                        'state_space_matrices_default_args': lambda o: list(nss.state_space_matrices(cc.transform_circuit(o['circ'], w=0))) if not o['c_values'] and not o['l_values'] else 'n/a'})
        return ops
    if kind == 'doc':
        return {
            'load_network': lambda o: loaders.load_network(o['entries']),
            'to_complex': lambda o: loaders.to_complex(o['polar']),
            'to_complex_degree': lambda o: loaders.to_complex(o['polar'], True),
            'serialize_json': lambda o: dl.serialize(o['doc'], 'json'),
            'serialize_yaml': lambda o: dl.serialize(o['doc'], 'yaml'),
            'round_trip_json': lambda o: dl.deserialize(dl.serialize(o['doc'], 'json'), 'json'),
            'round_trip_yaml': lambda o: dl.deserialize(dl.serialize(o['doc'], 'yaml'), 'yaml'),
            'dictify_all': lambda o: dl.dictify_all_complex_values(o['doc']),
            'undictify_circuit': lambda o: cdl.undictify_circuit(o['cdoc']),
            'circuit_from_yaml_text': lambda o: cdl.deserialize('components:\n- {id: R1, type: resistor, nodes: [\'1\', \'0\'], value: {R: 10.0}}\n- {id: Vq, type: dc_voltage_source, nodes: [\'1\', \'0\'], value: {V: 2.5}}\n', 'yaml'),
            'yaml_text_with_number_like_strings': lambda o: dl.deserialize('R: 1e3\nid: 2E5\nlist: [4E-2, abc]\n', 'yaml'),
            'generate_component': lambda o: cdl.generate_component(o['cdoc']['components'][0]),
        }
    if kind == 'schem':
        from CircuitCalculator.SimpleCircuit import dump_load as sdl
        from CircuitCalculator.SimpleCircuit.DiagramTranslator import circuit_translator
        return {
            'undictify_schematic': lambda o: circuit_translator(sdl.undictify_schematic(o['sdict'])),
            'schematic_circuit_section': lambda o: cdl.undictify_circuit(o['sdict']['circuit']),
        }
    if kind == 'wave':
        return {
            'fourier_series': lambda o: [[h.amplitude(n), h.phase(n), h.a(n), h.b(n), h.c(n), h.c(-n)] for h in [pfm.fourier_series(o['pf'])] for n in range(0, 9)],
            'time_function': lambda o: o['pf'].time_function(np.linspace(0.0, 2.0 * desc['period'], 9)),
        }
    raise ValueError(kind)


def make_pool(rng):
    pool = []
    for _ in range(4):
        d = G.random_network(rng, max_nodes=5, max_branches=8)
        d = G.add_salt(rng, d, n_open=rng.randint(0, 2), n_short=rng.randint(0, 2))
        ids = [b['id'] for b in d['branches']]
        pool.append({'kind': 'net', 'net': d, 'keep': rng.sample(ids, rng.randint(0, 2))})
    for _ in range(2):
        w = G.value(rng, 1, 3)
        cd = GC.random_circuit(rng, max_nodes=4, max_comps=7, freqs=[w, 0.0], lossy=0.3,
                               sources=GC.SRC_BASIC + ['periodic_voltage_source', 'complex_voltage_source', 'complex_current_source'])
        pool.append({'kind': 'circ', 'circuit': cd, 'w': w})
    for _ in range(2):
        c = C12.transient_case(rng)
        if c is None:
            continue
        pool.append({'kind': 'circ', 'circuit': c['circuit'], 'w': 100.0, 'dynamic': True, 'n': 40, 'h': 1e-4, 'inputs': c['inputs']})
    # the same descriptions again with other values (same ids, same topology): what a parameter sweep or a second project in the
    # same process looks like - anything cached by name or by topology shows up here
    import copy as _copy
    from .C10 import swept
    for item in list(pool):
        if item['kind'] == 'circ' and rng.random() < 0.8:
            twin = _copy.deepcopy(item)
            twin['circuit'] = swept(rng, twin['circuit'])
            for c in twin['circuit']['components']:
                a = c['args']
                if c['ctor'].startswith('periodic'):
                    a['wavetype'] = rng.choice([w for w in ['rect', 'tri', 'saw'] if w != a['wavetype']])
                for k in ('V', 'I'):
                    if k in a and not isinstance(a[k], list):
                        a[k] = a[k] * rng.choice([-2.0, 0.5, 3.0])
            pool.append(twin)
        elif item['kind'] == 'net' and rng.random() < 0.5:
            twin = _copy.deepcopy(item)
            for b in twin['net']['branches']:
                for k in ('R', 'G', 'V', 'I'):
                    if k in b and not isinstance(b[k], list):
                        b[k] = b[k] * rng.choice([0.5, 2.0, 5.0])
            pool.append(twin)
    for _ in range(3):
        ents, _refs = [], []
        for j in range(rng.randint(1, 5)):
            e, r = C17.net_entry(rng, rng.choice(C17.NET_KINDS), f'E{j}', '0' if j == 0 else rng.choice(['0', '1', '2']), rng.choice(['3', '4']))
            ents.append(e)
        comps = [C17._jsonify(C17.circ_entry(rng, rng.choice(C17.CIRC_KINDS), f'K{j}', '0', 'a')[0]) for j in range(rng.randint(1, 4))]
        doc = C17.rnd_doc(rng)
        pool.append({'kind': 'doc', 'entries': ents, 'cdoc': {'components': comps}, 'doc': C17._jsonify(doc if isinstance(doc, dict) else {'root': doc}),
                     'polar': {'abs': 10 ** rng.uniform(-2, 2), 'phase': rng.uniform(-180, 180)}})
    # a saved schematic (the JSON document of SimpleCircuit.dump_load) with degree / sine phase options
    try:
        from . import C15
        from ..gen import drawings as D
        from CircuitCalculator.SimpleCircuit import dump_load as sdl
        for _ in range(6):
            prog, fam = C15.make_program(rng)
            if fam == 'ac' and any(sy.get('args', {}).get('deg') or sy.get('args', {}).get('sin') for sy in prog['symbols']):
                break
        drawing = D.build(prog)
        pool.append({'kind': 'schem', 'sdict': json.loads(sdl.serialize(drawing, 'json'))})
    except Exception:
        pass
    for _ in range(2):
        pool.append({'kind': 'wave', 'wave': rng.choice(['rect', 'tri', 'saw', 'cos', 'sin', 'const']), 'period': 10 ** rng.uniform(-3, 1),
                     'amplitude': rng.choice([1, -1]) * 10 ** rng.uniform(-1, 2), 'phase': rng.uniform(-7, 7), 'offset': rng.choice([0.0, 1.5])})
    return pool


def run_op(item, name, ops):
    r = call(ops[name], item.objs)
    if raised(r):
        return ['raised', r.type]
    return canon(r)


def baseline_main(path, order):
    """executed in a FRESH interpreter: every (operation, pool item) once, each on freshly built objects"""
    from .. import bootstrap
    bootstrap.ensure_deps(); bootstrap.load_repo()
    pool = json.load(open(path))
    out = {}
    pairs = []
    for k, desc in enumerate(pool):
        for name in ops_for(desc['kind'], desc):
            pairs.append((k, name))
    if order == 'rev':
        pairs.reverse()
    for k, name in pairs:
        item = Item(copy.deepcopy(pool[k]))          # fresh objects for every single call
        out[f'{k}:{name}'] = run_op(item, name, ops_for(item.kind, item.desc))
    json.dump(out, sys.stdout)


def generate(tier, seed, shard, nshards):
    rng = random.Random(f'C20/{seed}/{shard}')
    for _ in range(N_HIST[tier]):
        yield {'pool': make_pool(rng), 'length': rng.randint(*HIST_LEN[tier]), 'hseed': rng.getrandbits(32)}


def judge(case, ctx, prefix='C20'):
    pool = case['pool']
    with tempfile.TemporaryDirectory() as td:
        fn = os.path.join(td, 'pool.json')
        json.dump(pool, open(fn, 'w'))
        base = {}
        for order in ('fwd', 'rev'):
            env = dict(os.environ)
            p = subprocess.run([sys.executable, '-s', '-c', f'from vmon.props.C20 import baseline_main; baseline_main({fn!r}, {order!r})'],
                               capture_output=True, text=True, cwd=os.path.dirname(os.path.dirname(os.path.dirname(os.path.abspath(__file__)))), env=env, timeout=600)
            if p.returncode < 0:
                # the interpreter that was running nothing but library operations on fresh objects was killed by a signal
                ctx.violation(f'{prefix}/interpreter-crash', f'a fresh interpreter executing the pool operations in {order} order died with signal {-p.returncode}', {'stderr': p.stderr[-500:]})
                return
            if p.returncode != 0:
                raise RuntimeError(f'baseline interpreter failed (exit {p.returncode}): ' + p.stderr[-1500:])
            base[order] = json.loads(p.stdout)
    ctx.count('baseline_interpreters', 2)
    for key, v in base['fwd'].items():
        d = same(v, base['rev'][key])
        ctx.count('baseline_pairs')
        if d:
            ctx.violation(f'{prefix}/isolated-result-depends-on-call-order/{key.split(":")[1]}', f'{key}: two fresh interpreters (opposite call order) disagree at {d}', {})
    # ---- the history on shared objects -------------------------------------------------------------------------
    items = [Item(copy.deepcopy(d)) for d in pool]
    opsets = [ops_for(it.kind, it.desc) for it in items]
    rng = random.Random(case['hseed'])
    tables0 = purity.mutable_defaults(REPO_MODULES)
    ctx.count('default_and_table_fingerprints', len(tables0))
    seen = {}
    log = []
    for step in range(case['length']):
        r = rng.random()
        if r < 0.25 and log:
            k, name = rng.choice(log[-8:])               # repeat a recent call
        else:
            k = rng.randrange(len(items))
            name = rng.choice(list(opsets[k]))
        it = items[k]
        before = purity.fp(it.objs)
        got = run_op(it, name, opsets[k])
        after = purity.fp(it.objs)
        log.append((k, name))
        n_prev = seen.get((k, name), 0)
        seen[(k, name)] = n_prev + 1
        ctx.evaluated(repr((name, it.kind, 'first' if n_prev == 0 else ('repeat' if log[-2:-1] == [(k, name)] else 'later'))), True)
        ctx.count('history_calls'); ctx.count(f'calls_{it.kind}')
        if before != after:
            which = [kk for kk in it.objs if purity.fp(it.objs[kk]) != dict(zip(it.objs, [None] * len(it.objs))).get(kk, 0) and False]
            changed = [kk for kk, v0 in _split(before).items() if _split(after).get(kk) != v0]
            ctx.violation(f'{prefix}/argument-mutated/{name}', f'{name} changed its argument object(s) {changed!r} (pool item {k}, call #{step})', {'history_tail': log[-6:]})
            items[k] = Item(copy.deepcopy(pool[k]))       # repair the pool so that one defect does not cascade
        exp = base['fwd'][f'{k}:{name}']
        d = same(exp, got)
        if d:
            ctx.violation(f'{prefix}/result-differs-from-isolated-run/{name}',
                          f'{name} on pool item {k} ({it.kind}), call #{step} (occurrence {n_prev + 1}): differs from the fresh-interpreter result at {d}', {'history_tail': log[-6:]})
        if step % 16 == 15 or step == case['length'] - 1:
            tables = purity.mutable_defaults(REPO_MODULES)
            if tables != tables0:
                bad = sorted(kk for kk in tables0 if tables.get(kk) != tables0[kk])
                ctx.violation(f'{prefix}/default-or-table-mutated/{bad[0] if bad else "?"}', f'mutable defaults / module tables changed after {log[-16:]!r}: {bad!r}', {})
                tables0 = tables
    # ---- equal descriptions, equal answers: an exemption list holding the network's own element objects and one holding equal
    # elements of an independently built copy of the same description must give the same result
    KEEP_OPS = ('short_circuitify', 'open_circuitify', 'remove_shorts', 'remove_ideal_current_sources', 'remove_ideal_voltage_sources', 'passive_network')
    for k, d in enumerate(pool):
        if d['kind'] != 'net' or not d.get('keep'):
            continue
        for name in KEEP_OPS:
            ops = ops_for('net', d)
            if name not in ops:
                continue
            own = run_op(Item({**copy.deepcopy(d), 'keep_mode': 'own'}), name, ops)
            twin = run_op(Item({**copy.deepcopy(d), 'keep_mode': 'twin'}), name, ops)
            ctx.count('identity_pairs_compared')
            dd = same(own, twin)
            if dd:
                ctx.violation(f'{prefix}/result-depends-on-object-identity/{name}', f'{name} on pool item {k}: an exemption list of the network\'s own element objects and one of equal elements from a rebuilt copy give different results at {dd}', {})
    # ---- a result handed out is the caller's: overwriting it in place must not change what the same object answers next
    for k, d in enumerate(pool):
        if d['kind'] == 'circ':
            results_are_the_callers(Item(copy.deepcopy(d)), ctx, prefix)
        if d['kind'] == 'wave':
            # the same instants (quarter periods of a waveform without phase shift: its edges and corners) asked again after unrelated
            # arrays of the same size were created and released: an answer must not be made of whatever memory happens to hold
            from CircuitCalculator.SignalProcessing.periodic_functions import periodic_function
            pf = call(lambda: periodic_function(d['wave'])(period=d['period'], amplitude=d['amplitude'], phase=0.0, offset=d['offset']))
            if not raised(pf):
                te = np.arange(0, 9) * d['period'] / 4
                y1 = call(pf.time_function, te.copy())
                for fill in (1234.5, -987.25):
                    junk = np.full(te.shape, fill); junk2 = np.full(te.shape, fill, dtype=float) * 1.0
                    del junk, junk2
                y2 = call(pf.time_function, te.copy())
                ctx.count('waveforms_re_evaluated_after_unrelated_allocations')
                lo, hi = d['offset'] - abs(d['amplitude']), d['offset'] + abs(d['amplitude'])
                bad = raised(y1) != raised(y2) or (not raised(y1) and (same(canon(y1), canon(y2)) or (d['wave'] != 'const' and (float(np.min(y1)) < lo - 1e-9 * (abs(lo) + abs(hi) + 1e-300) or float(np.max(y1)) > hi + 1e-9 * (abs(lo) + abs(hi) + 1e-300)))))
                if bad:
                    ctx.violation(f'{prefix}/result-depends-on-unrelated-work/time_function/{d["wave"]}', f'{d["wave"]} waveform at its quarter periods: {y1!r} the first time, {y2!r} after unrelated arrays were created and released (range of the waveform [{lo!r}, {hi!r}])', {})
    ctx.sample({'pool_kinds': [d['kind'] for d in pool], 'history_head': log[:12], 'length': case['length']})


def _scribble(x, spare):
    """overwrite every writeable array inside a result (not those that are, or share memory with, an array the caller supplied)"""
    n = 0
    if isinstance(x, np.ndarray):
        if x.flags.writeable and x.size and not any(np.shares_memory(x, a) for a in spare):
            x[...] = 12345.678
            n += 1
    elif isinstance(x, (list, tuple)):
        for v in x:
            n += _scribble(v, spare)
    elif isinstance(x, dict):
        for v in x.values():
            n += _scribble(v, spare)
    return n


def results_are_the_callers(it, ctx, prefix):
    from CircuitCalculator.Circuit import solution as S
    o = it.objs
    t = np.linspace(0.0, 0.01, 7)
    ids, nodes = o['ids'], o['nodes']
    spare = [a for a in o.values() if isinstance(a, np.ndarray)] + [t]

    def series(s):
        return [s.get_voltage(i) for i in ids[:3]] + [s.get_current(ids[-1]), s.get_potential(nodes[-1]), s.get_power(ids[0])]

    def functions(s):
        return [f(t) for f in [s.get_voltage(i) for i in ids[:3]] + [s.get_current(ids[-1]), s.get_potential(nodes[-1]), s.get_power(ids[0])]]
    def scalars(s):
        return solve_all(s, nodes, ids)
    makers = {
        'DCSolution': (lambda: S.DCSolution(o['circ']), scalars),
        'ComplexSolution': (lambda: S.ComplexSolution(circuit=o['circ'], w=o['w']), scalars),
        'ComplexSolution-peak': (lambda: S.ComplexSolution(circuit=o['circ'], w=o['w'], peak_values=True), scalars),
        'FrequencyDomainSolution': (lambda: S.FrequencyDomainSolution(circuit=o['circ'], w_max=4 * o['w']), series),
        'FrequencyDomainSolution-two-sided': (lambda: S.FrequencyDomainSolution(circuit=o['circ'], w_max=4 * o['w'], one_sided=False), series),
        'TimeDomainSolution': (lambda: S.TimeDomainSolution(o['circ'], 4 * o['w']), functions),
    }
    if it.desc.get('dynamic'):
        makers['TransientSolution'] = (lambda: S.TransientSolution(circuit=o['circ'], tin=o['tin'], input=o['input']), series)
    for name, (make, query) in makers.items():
        s = call(make)
        first = None if raised(s) else call(query, s)
        if raised(s) or raised(first):
            ctx.count('alias_clause_not_evaluated_query_raised')         # the history clause judges raising operations
            continue
        c1 = canon(first)
        # (a) an answer the caller keeps is not rewritten by later queries of the same object: every single answer is copied the
        # moment it is handed out and compared with what the kept object reads after all the other queries were made
        kept, at_return = [], []
        for q, ident in [('get_voltage', i) for i in ids[:3]] + [('get_current', ids[-1]), ('get_potential', nodes[-1]), ('get_power', ids[0])]:
            r = call(lambda: getattr(s, q)(ident))
            if raised(r):
                break
            kept.append(r); at_return.append(canon(r) if not callable(r) else None)
        d0 = None
        for r, c in zip(kept, at_return):
            if c is not None and same(c, canon(r)):
                d0 = same(c, canon(r))
            if callable(r):
                # a time function that was handed out answers the same whenever, however often and in whatever order it is evaluated
                y1 = call(r, t); y2 = call(r, t[::-1].copy()); y3 = call(r, t)
                ctx.count('returned_functions_evaluated_repeatedly')
                df = ['raised'] if (raised(y1) or raised(y2) or raised(y3)) else (same(canon(y1), canon(y3)) or same(canon(y1), canon(np.asarray(y2)[::-1])))
                if df:
                    ctx.violation(f'{prefix}/returned-function-answers-differently-when-evaluated-again/{name}', f'{name}: a time function handed out by the solution gives different values on a second evaluation of the same instants ({df})', {})
                    break
        again = call(query, s)
        ctx.count('alias_requeries')
        d = ['raised', again.type] if raised(again) else (d0 or same(c1, canon(again)) or same(c1, canon(first)))
        if d:
            ctx.violation(f'{prefix}/earlier-result-changed-by-a-later-query/{name}', f'{name}: results kept from the first round of queries read differently after the same queries were made again ({d})', {})
            continue
        # (b) queries that are refused (unknown identifiers) leave no trace in the object
        refused = 0
        for q in ('get_voltage', 'get_current', 'get_power', 'get_potential'):
            r = call(lambda: getattr(s, q)('no such id ' + q))
            r = call(lambda: r(t)) if (not raised(r) and callable(r)) else r
            refused += 1 if raised(r) else 0
        ctx.count('refused_queries_in_between', refused)
        after = call(query, s)
        d = ['raised', after.type] if raised(after) else same(c1, canon(after))
        if d:
            ctx.violation(f'{prefix}/answers-changed-after-a-refused-query/{name}', f'{name}: the same queries answer differently after queries for unknown identifiers were refused in between ({d})', {})
            continue
        # (c) the caller overwrites what it was handed
        n = _scribble(first, spare) + _scribble(again, spare) + _scribble(after, spare)
        ctx.count('result_arrays_overwritten_by_the_caller', n)
        second = call(query, s)
        d = ['raised', second.type] if raised(second) else same(c1, canon(second))
        if d:
            ctx.violation(f'{prefix}/result-aliases-internal-state/{name}', f'{name}: the same queries answer differently after the arrays returned the first time were overwritten in place by the caller ({d})', {})


def _split(fp_objs):
    # fp of a dict is ('dict', ((key_fp, value_fp), ...))
    try:
        return {k[1]: v for k, v in fp_objs[1]}
    except Exception:
        return {}


def guards(m, tier):
    c = m['counters']
    r = []
    need = 2500 if tier == 'quick' else 25000
    if c.get('history_calls', 0) < need:
        r.append(f"history_calls = {c.get('history_calls', 0)} (<{need})")
    for k in ('calls_net', 'calls_circ', 'calls_doc', 'calls_wave', 'calls_schem'):
        if c.get(k, 0) < (100 if k != 'calls_schem' else 20):
            r.append(f'{k} = {c.get(k, 0)}')
    return r
