"""C11 - derived dynamics are passive and stable."""
from __future__ import annotations
import random
import numpy as np
from .. import circdesc
from ..oracles import dynamics
from ..observe import call, raised
from .C10 import dyn_circuit, build_models, order_class
from . import C12

TITLE = "C11 W A + A^T W <= 0 with W = diag(C..., L...); eigenvalues in the closed left half plane; stored energy never grows unexcited"
LEVEL = 'exploration'
RULE = ("non-degenerate circuits of strictly positive R, C, L over several decades with ideal sources (C10 generator, hostile names): "
        "invariant monitor on every state matrix produced (largest eigenvalue of the symmetric part of W A, spectral abscissa of A) and "
        "a trace monitor on TransientSolution runs with finite pulses/triangles followed by silence (stored energy 1/2 sum C v^2 + 1/2 "
        "sum L i^2 non-increasing sample to sample after the last input breakpoint, and bounded). Non-trivial: >=1 reactive element; "
        "distinct by (circuit signature, order class).")
ASSUMPTIONS = [
    "W is built from the component values in the state order the model publishes (capacitor dictionary order, then inductor dictionary order)",
    "slack max(1e-9, 256 kappa 2^-53)*||W A|| for the definiteness test with kappa = condition number of the DC nodal matrix the builder inverts (set aside above 1e8), 1e-9 of the peak energy for monotonicity (lsim is exact for zero input)",
]
N_MODEL = {'quick': 3000, 'thorough': 25000}
N_SIM = {'quick': 600, 'thorough': 5000}


def generate(tier, seed, shard, nshards):
    rng = random.Random(f'C11/{seed}/{shard}')
    for k in range(N_MODEL[tier] // nshards):
        # one model in four has sources with an internal resistance / conductance (a source that is switched off is then a positive
        # resistor, so the circuit is as passive as any other); only the matrix invariants are judged for them
        cd = dyn_circuit(rng, lossy=0.6) if k % 4 == 3 else dyn_circuit(rng)
        if cd is not None:
            yield {'kind': 'model', 'circuit': cd}
            if rng.random() < 0.35:
                from .C10 import swept
                yield {'kind': 'model', 'circuit': swept(rng, cd), 'sweep_of_previous': True}
    for _ in range(N_SIM[tier] // nshards):
        c = C12.transient_case(rng, settle=False)
        if c is None:
            continue
        for spec in c['inputs'].values():          # every input must return to zero
            if spec['shape'] in ('ramp', 'ramp-hold'):
                lv, n = spec['level'], c['n']
                spec['shape'] = 'triangle'
                spec['points'] = [(0, 0.0), (2, 0.0), (n // 6, lv), (n // 3, 0.0), (n, 0.0)]
            elif spec['shape'] == 'constant':
                lv, n = spec['level'], c['n']
                spec['shape'] = 'step-down'
                spec['points'] = [(0, lv), (n // 4, lv), (n // 4 + 1, 0.0), (n, 0.0)]
        yield {'kind': 'sim', **c}
        if rng.random() < 0.35:
            from .C10 import swept
            yield {'kind': 'sim', **{**c, 'circuit': swept(rng, c['circuit'])}, 'sweep_of_previous': True}


def state_weights(ssm, cv, lv):
    """W in the model's OWN state order: which state is which capacitor voltage / inductor current is read from the model's
    output rows (so a consistent re-ordering of the states is not an alarm); None if the rows are not unit vectors (C10's business)"""
    n = len(cv) + len(lv)
    w = np.zeros(n)
    seen = set()
    for sid, val in list(cv.items()) + list(lv.items()):
        row = call(ssm.c_row_voltage if sid in cv else ssm.c_row_current, sid)
        if raised(row):
            return None
        r = np.asarray(row, dtype=float).reshape(-1)
        if r.size != n:
            return None
        k = int(np.argmax(np.abs(r)))
        e = np.zeros(n); e[k] = 1
        if np.max(np.abs(r - e)) > 1e-6 or k in seen:
            return None
        seen.add(k)
        w[k] = val
    return w


def check_matrix(ctx, prefix, cd, A, cv, lv, ssm=None):
    oc = order_class(cd)
    okey = 'hostile-order' if any(oc) else 'conventional-order'
    w = state_weights(ssm, cv, lv) if ssm is not None else np.array(list(cv.values()) + list(lv.values()), dtype=float)
    if w is None:
        ctx.count('set_aside_state_assignment_unreadable')
        return
    if A.shape[0] != len(w):
        ctx.violation(f'{prefix}/state-dimension', f'A is {A.shape}, {len(w)} reactive elements', {})
        return
    if not np.all(np.isfinite(A)):
        ctx.violation(f'{prefix}/non-finite-A/{okey}', 'state matrix contains NaN/inf', {})
        return
    WA = np.diag(w) @ A
    S = WA + WA.T
    nrm = max(float(np.linalg.norm(WA, 2)), 1e-300)
    lam = float(np.max(np.linalg.eigvalsh(S))) if S.size else 0.0
    # the rounding error of A scales with the condition number of the DC nodal matrix the builder inverts (micro-ohm next to ohm)
    k_build = dynamics.construction_kappa(cd)
    if not k_build <= 1e8:
        ctx.count('set_aside_construction_ill_conditioned')
        return
    slack = max(1e-9, 256 * k_build * 2.0 ** -53)
    ctx.maxstat('max_eig_sym_WA_over_norm', lam / nrm)
    ctx.count('matrices_checked'); ctx.count('matrices_' + okey)
    if lam > slack * nrm:
        ctx.violation(f'{prefix}/not-passive/{okey}', f'largest eigenvalue of W A + A^T W is {lam!r} (||W A|| = {nrm!r})', {'order_class': oc, 'A': A.tolist(), 'W': w.tolist()})
    ev = np.linalg.eigvals(A) if A.size else np.array([0.0])
    ab = float(np.max(ev.real))
    # eigenvalue sensitivity: scale with ||A|| and the conditioning of the eigenproblem (non-normal A)
    if ab > 1e-7 * max(float(np.linalg.norm(A, 2)), 1e-300):
        ctx.violation(f'{prefix}/unstable-eigenvalue/{okey}', f'spectral abscissa of A is {ab!r}', {'order_class': oc})


def judge(case, ctx, prefix='C11'):
    cd = case['circuit']
    ok, _ = dynamics.non_degenerate(cd)
    if not ok:
        ctx.count('set_aside_degenerate')
        return
    built = call(build_models, cd)
    if raised(built):
        ctx.violation(f'{prefix}/model-construction-raised/{built.key}', built.text, {})
        return
    circ, net, ssm, cv, lv = built
    if case.get('sweep_of_previous'):
        ctx.count('value_sweeps')
    check_matrix(ctx, prefix, cd, ssm.A, cv, lv, ssm)
    if any(c['ctor'].endswith('source') and (c['args'].get('R', 0) or c['args'].get('G', 0)) for c in cd['components']):
        ctx.count('matrices_of_circuits_with_lossy_sources')
    if case['kind'] == 'model':
        ctx.evaluated(circdesc.signature(cd, order_class(cd)), True)
        ctx.sample(case)
        return
    out = C12.run_transient(case, ctx, prefix, want=('V', 'I'))
    if out is None:
        return
    n = case['n']
    cd = out['cd']                                 # the circuit actually simulated (time-scaled for integer grids)
    last = max(k for spec in case['inputs'].values() for k, v in spec['points'] if v != 0) + 1
    last = max(last, max((k for spec in case['inputs'].values() for (k, v) in spec['points'][:-1]), default=0))
    E = np.zeros(n + 1)
    for c in cd['components']:
        if c['ctor'] == 'capacitor':
            E += 0.5 * c['args']['C'] * out['V'][c['id']] ** 2
        elif c['ctor'] == 'inductance':
            E += 0.5 * c['args']['L'] * out['I'][c['id']] ** 2
    peak = float(np.max(E))
    tail = E[last:]
    ctx.count('energy_traces_checked')
    ctx.evaluated(circdesc.signature(cd, ('sim',) + tuple(order_class(cd))), peak > 0)
    if peak > 0 and tail.size > 1:
        inc = float(np.max(np.diff(tail)))
        ctx.maxstat('max_energy_increase_over_peak', inc / peak)
        if inc > max(1e-9, 256 * dynamics.construction_kappa(cd) * 2.0 ** -53) * peak:
            ctx.violation(f'{prefix}/energy-grows-without-excitation', f'stored energy increases by {inc!r} (peak {peak!r}) after all inputs returned to zero', {'order_class': order_class(cd)})
        if not np.all(np.isfinite(E)):
            ctx.violation(f'{prefix}/unbounded-response', 'non-finite stored energy', {})
    ctx.sample({'circuit': cd, 'inputs': case['inputs'], 'n': n})


def guards(m, tier):
    c = m['counters']
    r = []
    q = tier == 'quick'
    for k, need in (('matrices_checked', 1000), ('matrices_hostile-order', 300), ('energy_traces_checked', 150), ('matrices_of_circuits_with_lossy_sources', 100)):
        need = need if q else need * 12
        if c.get(k, 0) < need:
            r.append(f'{k} = {c.get(k, 0)} (<{need})')
    return r
