"""C01 - steady-state network solution obeys Kirchhoff's laws and every element law."""
from __future__ import annotations
import itertools, random
from ..gen import networks as G
from .. import netdesc
from ..oracles import netsolve
from ..observe import call, raised

TITLE = "C01 steady-state solution = exact tableau solution (Kirchhoff + element laws)"
LEVEL = 'exploration'
RULE = ("network descriptions: (a) bounded-exhaustive connected multigraphs on <=3 nodes/<=4 branches with sampled kind/"
        "orientation/reference assignments, (b) seeded random connected multigraphs up to 8 nodes/14 branches with hostile labels, "
        "real and complex values over <=4 decades, (c) directed strata (reference node touching only ideal voltage sources, "
        "source with 2nd terminal at the reference, parallel branches, labels '10'<'9'). A case is non-trivial when it is "
        "well-posed (exact rank over Q(i)), has >=2 branches, >=1 source and a non-zero reference solution; distinct by a "
        "canonical signature (degree-refined graph shape, constructor/orientation pattern, reference position, id sort pattern).")
ASSUMPTIONS = [
    "reference = sparse-tableau model solved exactly over Q(i) (vmon/ref); directions per DESIGN 4.1",
    "tolerance (1e-9 + 256*kappa*2^-53)*scale with kappa from an independently assembled float MNA; kappa>1e8 set aside",
    "numpy.linalg trusted only for condition numbers",
]

N_RANDOM = {'quick': 5200, 'thorough': 40000}
N_SMALL = {'quick': 2400, 'thorough': 16000}


def directed(rng):
    """Strata that the random generator reaches rarely."""
    out = []
    # reference node touching only ideal voltage sources / shorts
    for refn, a, b in (('0', '1', '2'), ('z', 'a', 'b'), ('5', '10', '9')):
        out.append({'ref': refn, 'branches': [
            {'id': 'Vs', 'n1': a, 'n2': refn, 'ctor': 'voltage_source', 'V': 5.0},
            {'id': 'R1', 'n1': a, 'n2': b, 'ctor': 'resistor', 'R': 10.0},
            {'id': 'V2', 'n1': refn, 'n2': b, 'ctor': 'voltage_source', 'V': -2.0}]})
        out.append({'ref': refn, 'branches': [
            {'id': 'Vs', 'n1': refn, 'n2': a, 'ctor': 'voltage_source', 'V': [3.0, 1.0]},
            {'id': 'R1', 'n1': a, 'n2': b, 'ctor': 'resistor', 'R': 10.0},
            {'id': 'Sx', 'n1': refn, 'n2': b, 'ctor': 'short_circuit'}]})
    # current source whose second terminal is the reference; parallel sources
    out.append({'ref': '0', 'branches': [
        {'id': 'Is', 'n1': '1', 'n2': '0', 'ctor': 'current_source', 'I': 2.0},
        {'id': 'R1', 'n1': '1', 'n2': '0', 'ctor': 'resistor', 'R': 5.0},
        {'id': 'R2', 'n1': '0', 'n2': '1', 'ctor': 'conductor', 'G': 0.1}]})
    out.append({'ref': '0', 'branches': [
        {'id': 'Iq', 'n1': '0', 'n2': '1', 'ctor': 'current_source', 'I': 1.0, 'Y': 0.01},
        {'id': 'R1', 'n1': '1', 'n2': '2', 'ctor': 'resistor', 'R': 10.0},
        {'id': 'R2', 'n1': '2', 'n2': '0', 'ctor': 'resistor', 'R': 20.0}]})          # shipped example network 3
    out.append({'ref': '0', 'branches': [
        {'id': 'Uq', 'n1': '1', 'n2': '0', 'ctor': 'voltage_source', 'V': 1.0, 'Z': 100.0},
        {'id': 'R1', 'n1': '1', 'n2': '2', 'ctor': 'resistor', 'R': 10.0},
        {'id': 'R2', 'n1': '2', 'n2': '0', 'ctor': 'resistor', 'R': 20.0}]})
    # labels '10' < '9', ids interleaving kinds
    out.append({'ref': '9', 'branches': [
        {'id': 'Z', 'n1': '10', 'n2': '9', 'ctor': 'current_source', 'I': 1.0},
        {'id': 'A', 'n1': '10', 'n2': '100', 'ctor': 'voltage_source', 'V': 2.0},
        {'id': 'M', 'n1': '100', 'n2': '9', 'ctor': 'resistor', 'R': 4.0},
        {'id': 'B', 'n1': '10', 'n2': '9', 'ctor': 'voltage_source', 'V': 3.0, 'Z': 2.0},
        {'id': 'a', 'n1': '9', 'n2': '100', 'ctor': 'current_source', 'I': 0.5, 'Y': 0.25}]})
    return out


def small_cases(rng, n):
    topos = G.small_topologies(3, 4)
    labels3 = [('0', '1', '2'), ('b', 'a', 'c'), ('10', '9', '1'), ('Vs', 'Is', 'R')]
    for _ in range(n):
        nn, combo = rng.choice(topos)
        nl = rng.choice(labels3)[:nn] if rng.random() < 0.8 else tuple(G.pick_labels(rng, G.NODE_POOL, nn))
        ids = G.pick_labels(rng, G.ID_POOL, len(combo))
        cplx = rng.random() < 0.3
        nsrc = rng.randint(1, min(3, len(combo)))
        src_pos = set(rng.sample(range(len(combo)), nsrc))
        brs = []
        for k, (i, j) in enumerate(combo):
            if rng.random() < 0.5:
                i, j = j, i
            kind = rng.choice(['ideal_v', 'ideal_i', 'lin_v', 'lin_i']) if k in src_pos else rng.choice(G.PASSIVE)
            brs.append(G.make_branch(rng, kind, ids[k], nl[i], nl[j], (0, 1), cplx, exact=True))
        yield {'ref': rng.choice(nl), 'branches': brs}


FIXED = {   # one fixed exact (dyadic) value per kind: the enumeration below is exhaustive over STRUCTURE
    'resistor': {'ctor': 'resistor', 'R': 4.0}, 'conductor': {'ctor': 'conductor', 'G': 0.5}, 'impedance': {'ctor': 'impedance', 'Z': [3.0, 4.0]},
    'admittance': {'ctor': 'admittance', 'Y': [0.25, -0.5]}, 'load_v': {'ctor': 'load_v', 'P': 8.0, 'V_ref': 4.0}, 'load_i': {'ctor': 'load_i', 'P': 6.0, 'I_ref': 2.0},
    'ideal_v': {'ctor': 'voltage_source', 'V': 5.0}, 'ideal_i': {'ctor': 'current_source', 'I': 0.75}, 'lin_v': {'ctor': 'voltage_source', 'V': [2.0, -1.0], 'Z': 2.0},
    'lin_i': {'ctor': 'current_source', 'I': -1.5, 'Y': 0.125},
}


def structural_space():
    """every connected multigraph on <= 3 nodes with <= 3 branches x every assignment of the 10 element kinds x every orientation x every
    reference node (labels fixed, values fixed per kind): a finite space that the thorough tier enumerates completely"""
    labels = ('b', 'a', 'c')                 # not in sorted order on purpose
    ids = ('Z', 'A', 'm')
    for nn, combo in G.small_topologies(3, 3):
        for kinds in itertools.product(G.KINDS, repeat=len(combo)):
            if not any(k in ('ideal_v', 'ideal_i', 'lin_v', 'lin_i') for k in kinds):
                continue
            for flips in itertools.product((0, 1), repeat=len(combo)):
                for ref in range(nn):
                    yield nn, combo, kinds, flips, ref, labels, ids


def structural_case(item):
    nn, combo, kinds, flips, ref, labels, ids = item
    brs = []
    for k, ((i, j), kind, fl) in enumerate(zip(combo, kinds, flips)):
        if fl:
            i, j = j, i
        brs.append({'id': ids[k], 'n1': labels[i], 'n2': labels[j], **FIXED[kind]})
    return {'ref': labels[ref], 'branches': brs}


def generate(tier, seed, shard, nshards):
    rng = random.Random(f'C01/{seed}/{shard}')
    stride = 1 if tier == 'thorough' else 23
    for idx, item in enumerate(structural_space()):
        if idx % nshards == shard and (idx // nshards) % stride == (seed % stride):
            yield {'stratum': 'structural-exhaustive' if stride == 1 else 'structural-sample', 'net': structural_case(item)}
    if shard == 0:
        for d in directed(rng):
            yield {'stratum': 'directed', 'net': d}
    for d in small_cases(rng, N_SMALL[tier] // nshards):
        yield {'stratum': 'small', 'net': d}
    for k in range(N_RANDOM[tier] // nshards):
        d = G.random_network(rng)
        if k % 8 == 5:
            # an element whose two terminals sit on the same node (a component bridged by a wire): it carries no voltage, a passive
            # one no current, and it must not influence the rest of the network
            G.add_self_loops(random.Random(f'{seed}/{shard}/{k}/loop'), d)
            yield {'stratum': 'self-loop', 'net': d}
            continue
        yield {'stratum': 'random', 'net': d}


def judge(case, ctx, prefix='C01'):
    desc = case['net']
    refd = netsolve.reference(desc)
    if refd is None:
        ctx.count('set_aside_ill_posed')
        return
    if refd['kappa'] > netsolve.KAPPA_MAX:
        ctx.count('set_aside_ill_conditioned')
        return
    nsrc = sum(1 for b in desc['branches'] if netdesc.is_source(b))
    nontrivial = len(desc['branches']) >= 2 and nsrc >= 1 and not refd['trivial']
    ctx.evaluated(netdesc.signature(desc), nontrivial)
    ctx.count('judged')
    ctx.count(f'stratum_{case.get("stratum", "x")}')
    ctx.sample(case)
    from CircuitCalculator.Network.NodalAnalysis.bias_point_analysis import nodal_analysis_bias_point_solver, open_circuit_voltage
    net = call(netdesc.to_lib, desc)
    if raised(net):
        ctx.violation(f'{prefix}/valid-network-rejected/{net.key}', f'constructing a well-posed network raised {net.text}', {})
        return
    sol = call(nodal_analysis_bias_point_solver, net)
    if raised(sol):
        ctx.violation(f'{prefix}/solver-raised/{sol.key}', f'a well-posed network failed to solve: {sol.text}', {'kappa': refd['kappa']})
        return
    getters = {'phi': sol.get_potential, 'V': sol.get_voltage, 'I': sol.get_current, 'P': sol.get_power}
    bad = netsolve.compare(refd, getters, ctx, prefix)
    netsolve.certificate(refd, getters, ctx, prefix)
    # the same network solved with user-supplied node / source numberings (the solver's mapper extension point): same physics
    from CircuitCalculator.Network.NodalAnalysis.bias_point_analysis import NodalAnalysisBiasPointSolution
    from .. import mappers
    which = ctx.rng.choice(['node_mapper', 'voltage_source_mapper', 'current_source_mapper', 'all'])
    cm = mappers.custom_numbering(ctx.rng.getrandbits(30))
    kw = cm if which == 'all' else {which: cm[which]}
    sol2 = call(NodalAnalysisBiasPointSolution, net, **kw)
    ctx.count('custom_numberings_solved')
    if raised(sol2):
        ctx.violation(f'{prefix}/custom-numbering/{which}/solver-raised/{sol2.key}', f'solving with a permuted {which} raised {sol2.text}', {})
    else:
        netsolve.compare(refd, {'phi': sol2.get_potential, 'V': sol2.get_voltage, 'I': sol2.get_current, 'P': sol2.get_power}, ctx, f'{prefix}/custom-numbering/{which}')
    # open_circuit_voltage for a few node pairs
    ns = netdesc.nodes(desc)
    pairs = list(itertools.permutations(ns, 2))
    ctx.rng.shuffle(pairs)
    for a, b in pairs[:3] + [(ns[0], ns[0])]:
        got = call(open_circuit_voltage, net, a, b)
        exp = refd['rep']['phi'][a] - refd['rep']['phi'][b]
        if raised(got):
            ctx.violation(f'{prefix}/open-circuit-voltage/exception/{got.key}', f'open_circuit_voltage({a!r},{b!r}) raised {got.text}', {})
        elif abs(complex(got) - exp) > refd['tol'] * refd['s_phi']:
            ctx.violation(f'{prefix}/open-circuit-voltage/mismatch', f'open_circuit_voltage({a!r},{b!r}) = {got!r}, exact {exp!r}', {})
        ctx.count('open_circuit_voltage_checked')
    ctx.maxstat('kappa_max_judged', refd['kappa'])


def extra_coverage(m):
    c = m['counters']
    n = c.get('stratum_structural-exhaustive', 0)
    return {'exhaustive_subspace': {'description': 'all connected multigraphs on <= 3 nodes / <= 3 branches x all assignments of 10 element kinds with >= 1 source x all orientations x all reference nodes (fixed labels and one exact value per kind)',
                                    'well_posed_members_judged': n, 'enumerated_completely': n > 0}}


def guards(m, tier):
    r = []
    c = m['counters']
    judged = c.get('judged', 0)
    need = 600 if tier == 'quick' else 6000
    if judged < need:
        r.append(f'only {judged} well-posed networks judged (<{need})')
    aside = c.get('set_aside_ill_conditioned', 0)
    if aside > 0.25 * max(1, judged + aside):
        r.append(f'{aside} cases set aside as ill-conditioned (>25%)')
    return r
