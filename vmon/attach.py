"""Piggy-back contract layer: icontract postconditions attached to the REAL functions from the harness (no source edits).

The contracts are record-only (the condition logs and returns True, so an execution that another monitor is observing is never
aborted).  They run on every invocation, including the thousands of internal ones made while some other property's workload
is executing.  A contract belongs to one property: a failure becomes a violation of the running check only if that check is the
owner; otherwise it is reported in the evidence as a foreign contract firing (diagnosis only).

Contracts
  K01  NodalAnalysisBiasPointSolution.__post_init__   KCL at every node incl. the reference, V = phi1 - phi2, phi(ref) = 0      (owner C01)
  K07  Circuit.circuit.transform_circuit              one branch per non-ground component, ids/terminals kept, reference node     (owner C07)
  K11  state_space_matrices                           finite matrices of the right shape; no eigenvalue in the right half plane    (owner C11)
  K16  every function of Network.transformers         argument network / keep list unchanged (deep fingerprint before/after)      (owner C16)
  K20  loaders / (de)serialisers                      argument dictionaries unchanged                                            (owner C20)
"""
from __future__ import annotations
import sys, functools
import numpy as np
from . import purity

STATE = {'ctx': None, 'installed': False}
OWNER = {'K01': 'C01', 'K07': 'C07', 'K11': 'C11', 'K16': 'C16', 'K20': 'C20'}


def _record(name, ok, what='', mech=''):
    ctx = STATE['ctx']
    if ctx is None:
        return
    ctx.count(f'contract_{name}_evaluations')
    if ok:
        return
    ctx.count(f'contract_{name}_failures')
    if ctx.pid == OWNER[name]:
        ctx.violation(f'{ctx.pid}/contract-{name}/{mech}', what, {'contract': name})
    else:
        lst = ctx.counters.setdefault('_foreign', 0)
        ctx.counters['_foreign'] = lst + 1
        if len(ctx.foreign) < 5:
            ctx.foreign.append({'contract': name, 'owner': OWNER[name], 'what': what[:300]})


# ---- condition functions (named, as icontract wants them) -------------------------------------------------------------------
def k01_certificate(self):
    try:
        from CircuitCalculator.Network import elements as elm
        from CircuitCalculator.Network.NodalAnalysis.node_analysis import nodal_analysis_coefficient_matrix
        net = self.network
        if not net.branches:
            return True
        sv = getattr(self, '_solution_vector', None)
        if sv is None or not np.all(np.isfinite(sv)) or not np.any(sv):
            return True                                   # fallback / trivial solution: nothing to certify
        A = nodal_analysis_coefficient_matrix(net, node_mapper=self.node_mapper)
        if not np.all(np.isfinite(A)) or np.linalg.cond(A) > 1e8:
            return True                                   # ill-conditioned: not judged
        inj, mag = {}, {}
        vmax = 0.0
        for b in net.branches:
            i = complex(self.get_current(b.id))
            v = complex(self.get_voltage(b.id))
            vmax = max(vmax, abs(v))
            e = b.element
            gen = elm.is_active(e) and not elm.is_ideal_voltage_source(e) and not elm.is_ideal_current_source(e)
            phys = -i if gen else i
            for n, s in ((b.node1, 1), (b.node2, -1)):
                inj[n] = inj.get(n, 0) + s * phys
                mag[n] = mag.get(n, 0) + abs(phys)
        tot = max(mag.values()) if mag else 0.0
        # natural current scale of the inputs (a solution whose currents are all ~0 must not be judged relative to itself)
        ymax = max([abs(complex(b.element.Y)) for b in net.branches if np.isfinite(complex(b.element.Y))] + [0.0])
        vsrc = max([abs(complex(b.element.V)) for b in net.branches if np.isfinite(complex(b.element.V))] + [0.0])
        isrc = max([abs(complex(b.element.I)) for b in net.branches if np.isfinite(complex(b.element.I))] + [0.0])
        tot = max(tot, isrc, vsrc * ymax, vmax * ymax)
        for n, r in inj.items():
            if abs(r) > 1e-6 * max(tot, 1e-300):
                _record('K01', False, f'reported currents do not balance at node {n!r}: residual {r!r} (largest node throughput {tot!r})',
                        'kcl-reference-node' if n == net.node_zero_label else 'kcl')
                return True
        if complex(self.get_potential(net.node_zero_label)) != 0:
            _record('K01', False, 'reference potential is not zero', 'reference-potential')
            return True
        _record('K01', True)
    except Exception:       # a contract must never disturb the execution it observes
        pass
    return True


def k07_one_branch_per_component(circuit, result):
    try:
        comp_ids = [c.id for c in circuit.components if c.type != 'ground']
        got = [b.id for b in result.branches]
        if sorted(got) != sorted(comp_ids):
            miss = sorted({c.type for c in circuit.components if c.type != 'ground' and c.id not in got})
            _record('K07', False, f'transform_circuit returned branches {got!r} for components {comp_ids!r}', 'branch-set/' + ','.join(miss))
            return True
        byid = {b.id: b for b in result.branches}
        for c in circuit.components:
            if c.type != 'ground' and (byid[c.id].node1, byid[c.id].node2) != tuple(c.nodes[:2]):
                _record('K07', False, f'{c.id!r}: terminals {c.nodes!r} -> {(byid[c.id].node1, byid[c.id].node2)!r}', 'terminal-order')
                return True
        if result.node_zero_label != circuit.ground_node:
            _record('K07', False, f'reference node {result.node_zero_label!r} != ground node {circuit.ground_node!r}', 'reference-node')
            return True
        _record('K07', True)
    except Exception:
        pass
    return True


def k11_passive(network, c_values, l_values, result):
    try:
        A, B, C, D = result
        n = len(c_values) + len(l_values)
        if A.shape != (n, n) or not np.all(np.isfinite(A)):
            _record('K11', False, f'state matrix of shape {A.shape} for {n} reactive elements or non-finite entries', 'shape-or-nan')
            return True
        w = np.array(list(c_values.values()) + list(l_values.values()), dtype=float)
        pos = all(not np.iscomplexobj(b.element.Z) or complex(b.element.Z).imag == 0 for b in network.branches) and np.all(w > 0) and \
            all(complex(b.element.Y).real >= 0 for b in network.branches if np.isfinite(complex(b.element.Y)))
        if n and pos:
            # order-independent consequence of passivity: no natural frequency in the open right half plane
            ev = np.linalg.eigvals(A)
            if float(np.max(ev.real)) > 1e-7 * max(float(np.linalg.norm(A, 2)), 1e-300):
                _record('K11', False, f'state matrix has an eigenvalue with real part {float(np.max(ev.real))!r} > 0', 'unstable')
                return True
        _record('K11', True)
    except Exception:
        pass
    return True


def _pure(name, mech):
    """wrapper that fingerprints all arguments before and after the call"""
    def deco(fn):
        @functools.wraps(fn)
        def wrapper(*a, **k):
            try:
                watched = [x for x in list(a) + list(k.values()) if _plain(x)]
                before = purity.fp(watched)
            except Exception:
                before = None
            out = fn(*a, **k)
            try:
                if before is not None:
                    ok = purity.fp(watched) == before
                    _record(name, ok, f'{fn.__module__}.{fn.__name__} modified one of its arguments', f'{mech}/{fn.__name__}')
            except Exception:
                pass
            return out
        wrapper.__vmon_wrapped__ = fn
        return wrapper
    return deco


def _plain(x):
    """descriptions whose immutability the properties speak about: plain containers and the repository's own dataclasses
    (third-party objects such as schemdraw drawings cache things lazily and are not watched)"""
    import dataclasses
    if isinstance(x, (dict, list, tuple, set, str, int, float, complex, bool)) or x is None:
        return True
    return dataclasses.is_dataclass(x) and type(x).__module__.startswith('CircuitCalculator')


def _rebind(orig, new):
    """replace every module-level reference to `orig` (from x import f) in the already imported repository modules"""
    for mn, m in list(sys.modules.items()):
        if m is None or not mn.startswith('CircuitCalculator'):
            continue
        for an, av in list(vars(m).items()):
            if av is orig:
                setattr(m, an, new)
            # references bound as default arguments or partial keywords follow too: otherwise calls through them bypass the contract
            # and identity relations between the module attribute and the default (f is g) differ from the uninstrumented code
            d = getattr(av, '__defaults__', None)
            if d and any(x is orig for x in d):
                try:
                    av.__defaults__ = tuple(new if x is orig else x for x in d)
                except (AttributeError, TypeError):
                    pass
            kw = getattr(av, 'keywords', None)
            if isinstance(kw, dict):
                for k_, v_ in list(kw.items()):
                    if v_ is orig:
                        kw[k_] = new


def install(ctx):
    """import the repository modules, then attach the contracts. Idempotent per process."""
    STATE['ctx'] = ctx
    if not hasattr(ctx, 'foreign'):
        ctx.foreign = []
    if STATE['installed']:
        return
    STATE['installed'] = True
    import importlib, icontract
    mods = ['CircuitCalculator.Network.transformers', 'CircuitCalculator.Network.loaders', 'CircuitCalculator.dump_load',
            'CircuitCalculator.Network.NodalAnalysis.bias_point_analysis', 'CircuitCalculator.Network.NodalAnalysis.state_space_model',
            'CircuitCalculator.Circuit.circuit', 'CircuitCalculator.Circuit.solution', 'CircuitCalculator.Circuit.impedance',
            'CircuitCalculator.Circuit.state_space_model', 'CircuitCalculator.Circuit.dump_load']
    loaded = {}
    for mn in mods:
        try:
            loaded[mn] = importlib.import_module(mn)
        except Exception:
            pass
    bpa = loaded.get('CircuitCalculator.Network.NodalAnalysis.bias_point_analysis')
    if bpa is not None:
        cls = bpa.NodalAnalysisBiasPointSolution
        cls.__post_init__ = icontract.ensure(k01_certificate, error=AssertionError)(cls.__post_init__)
    cc = loaded.get('CircuitCalculator.Circuit.circuit')
    if cc is not None:
        orig = cc.transform_circuit
        new = icontract.ensure(k07_one_branch_per_component, error=AssertionError)(orig)
        _rebind(orig, new)
    ss = loaded.get('CircuitCalculator.Network.NodalAnalysis.state_space_model')
    if ss is not None:
        orig = ss.state_space_matrices
        new = icontract.ensure(k11_passive, error=AssertionError)(orig)
        _rebind(orig, new)
    trf = loaded.get('CircuitCalculator.Network.transformers')
    if trf is not None:
        import inspect
        for name, fn in list(vars(trf).items()):
            if inspect.isfunction(fn) and fn.__module__ == trf.__name__:
                _rebind(fn, _pure('K16', 'argument-mutated')(fn))
    for mn, names in (('CircuitCalculator.Network.loaders', ['load_network', 'to_complex']),
                      ('CircuitCalculator.dump_load', ['serialize', 'dictify_all_complex_values', 'undictify_all_complex_values', 'undictify_complex_values', 'dictify_complex_values']),
                      ('CircuitCalculator.Circuit.dump_load', ['undictify_circuit', 'generate_component'])):
        m = loaded.get(mn)
        if m is None:
            continue
        for nm in names:
            fn = getattr(m, nm, None)
            if fn is not None and callable(fn) and not hasattr(fn, '__vmon_wrapped__'):
                _rebind(fn, _pure('K20', 'argument-mutated')(fn))
