"""pytest plugin: the repository's OWN tests as one more workload for the piggy-back contracts (vmon/attach.py).

Used by tools/owntests_contracts.py:  pytest -p vmon.pytest_contracts  with $VERIF_REPO/src first on sys.path.
Every contract firing is a diagnosis line in the report (all contracts are 'foreign' to the pseudo check id 'OWN');
the report is written to $VERIF_OWNTESTS_REPORT."""
from __future__ import annotations
import json, os

from . import attach, bootstrap


class _Ctx:
    pid = 'OWN'

    def __init__(self):
        self.counters = {}
        self.foreign = []
        self.case = None

    def count(self, name, n=1):
        self.counters[name] = self.counters.get(name, 0) + n

    def violation(self, *a, **k):      # never reached: no contract is owned by 'OWN'
        pass


CTX = _Ctx()


def pytest_configure(config):
    bootstrap.ensure_deps()
    bootstrap.load_repo()
    attach.install(CTX)


def pytest_sessionfinish(session, exitstatus):
    out = os.environ.get('VERIF_OWNTESTS_REPORT')
    if out:
        ev = {k: v for k, v in CTX.counters.items() if k.endswith('_evaluations')}
        fl = {k: v for k, v in CTX.counters.items() if k.endswith('_failures')}
        with open(out, 'w') as f:
            json.dump({'contract_evaluations': ev, 'contract_failures': fl, 'firings': CTX.foreign,
                       'tests_collected': session.testscollected, 'tests_failed': session.testsfailed}, f, indent=1)
