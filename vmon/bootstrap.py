"""Environment pinning and import of the *working-tree* CircuitCalculator.

The pinned baseline test-suite imports the wheel in /venv/site-packages; the monitors
must observe the sources under $VERIF_REPO/src instead.  `load_repo()` puts that
directory first on sys.path, imports the package and asserts where it came from."""
from __future__ import annotations
import os, sys, subprocess, importlib

VERIF_ROOT = os.path.dirname(os.path.dirname(os.path.abspath(__file__)))
REPO = os.environ.get('VERIF_REPO', '/repo')
DEPS = os.path.join(VERIF_ROOT, '.deps')


class Inconclusive(Exception):
    """Infrastructure problem: the run can neither confirm nor refute."""


def ensure_deps() -> None:
    """icontract lives in the git-ignored .deps directory; (re)install offline if absent."""
    if not os.path.isdir(os.path.join(DEPS, 'icontract')):
        subprocess.run([sys.executable, '-m', 'pip', 'install', '--quiet', '--no-index',
                        '--find-links', '/opt/veriftools/wheels', '--target', DEPS,
                        'icontract', 'asttokens'],
                       check=False, stdout=subprocess.DEVNULL, stderr=subprocess.DEVNULL)
    if DEPS not in sys.path:
        sys.path.append(DEPS)


_loaded = None


def load_repo():
    global _loaded
    if _loaded is not None:
        return _loaded
    os.environ.setdefault('MPLBACKEND', 'Agg')
    src = os.path.join(REPO, 'src')
    if not os.path.isdir(os.path.join(src, 'CircuitCalculator')):
        raise Inconclusive(f'no CircuitCalculator sources under {src}')
    if src in sys.path:
        sys.path.remove(src)
    sys.path.insert(0, src)
    for m in [m for m in sys.modules if m == 'CircuitCalculator' or m.startswith('CircuitCalculator.')]:
        del sys.modules[m]
    try:
        pkg = importlib.import_module('CircuitCalculator')
    except Exception as e:  # a tree that cannot be imported at all cannot be judged
        raise Inconclusive(f'CircuitCalculator not importable from {src}: {e!r}')
    origin = os.path.realpath(getattr(pkg, '__file__', '') or list(pkg.__path__)[0])
    if not origin.startswith(os.path.realpath(src)):
        raise Inconclusive(f'CircuitCalculator imported from {origin}, not from {src}')
    _loaded = pkg
    return pkg


def repo_src(*parts: str) -> str:
    return os.path.join(REPO, 'src', 'CircuitCalculator', *parts)
