"""Plain-JSON circuit descriptions (component level) and their two readings.

component = {'ctor': <name of a constructor in Circuit.components>, 'id', 'nodes': [a, b], 'args': {...}}
numbers: floats; complex as [re, im].

to_lib(cdesc)                    -> the library's Circuit, built with the library's constructors
ref_network(cdesc, w, w_res)     -> reference tableau network at angular frequency w (independent table, DESIGN 4.1)
"""
from __future__ import annotations
import math, cmath
from .netdesc import cx
from . import netdesc as _nd
from .ref import fourier


def lib_component(c):
    from CircuitCalculator.Circuit import components as ccp
    args = {k: _nd.typed(complex(*v) if isinstance(v, (list, tuple)) else v) for k, v in c.get('args', {}).items()}
    f = getattr(ccp, c['ctor'])
    if c['ctor'] == 'ground':
        return f(id=c['id'], nodes=tuple(c['nodes']))
    return f(id=c['id'], nodes=tuple(c['nodes']), **args)


def to_lib(cdesc):
    from CircuitCalculator.Circuit.circuit import Circuit
    _nd._NUMBER_TYPE[0] = cdesc.get('number_type')
    try:
        return Circuit([lib_component(c) for c in cdesc['components']])
    finally:
        _nd._NUMBER_TYPE[0] = None


def ground_of(cdesc):
    g = [c for c in cdesc['components'] if c['ctor'] == 'ground']
    if g:
        return g[0]['nodes'][0]
    return cdesc['components'][0]['nodes'][0]


_shape_cache = {}


def periodic_phasor(wavetype, amplitude, w0, phase, n):
    """True n-th harmonic phasor X_n of the library's own waveform (time function sampled)."""
    from CircuitCalculator.SignalProcessing.periodic_functions import periodic_function
    key = (wavetype, amplitude, w0, phase)
    T = 2 * math.pi / w0
    if key not in _shape_cache:
        pf = periodic_function(wavetype)(period=T, amplitude=amplitude, phase=phase)
        _shape_cache[key] = fourier.recognise(pf.time_function, T, phase)
        if len(_shape_cache) > 2000:
            _shape_cache.clear()
    sh = _shape_cache[key]
    return fourier.coefficient(sh, T, n)


def _src(base, kind_ideal, val, imm, lossy_kind):
    """ideal source if the internal immittance is zero, else linear source."""
    v = cx(val)
    z = cx(imm)
    if kind_ideal == 'V':
        if z == 0:
            return {**base, 'kind': 'V', 'V': [complex(v).real, complex(v).imag]}
        if v == 0:
            return {**base, 'kind': 'Z', 'Z': [complex(z).real, complex(z).imag]}
        return {**base, 'kind': 'LV', 'V': [complex(v).real, complex(v).imag], 'Z': [complex(z).real, complex(z).imag]}
    if z == 0:
        return {**base, 'kind': 'I', 'I': [complex(v).real, complex(v).imag]}
    if v == 0:
        return {**base, 'kind': 'Y', 'Y': [complex(z).real, complex(z).imag]}
    return {**base, 'kind': 'LI', 'I': [complex(v).real, complex(v).imag], 'Y': [complex(z).real, complex(z).imag]}


def ref_branch(c, w, w_res=1e-3):
    """Reference law of one component at angular frequency w; None for ground."""
    t, a = c['ctor'], c.get('args', {})
    if t == 'ground':
        return None
    base = {'id': c['id'], 'n1': c['nodes'][0], 'n2': c['nodes'][1]}
    if t == 'resistor':
        return {**base, 'kind': 'Z', 'Z': a['R']}
    if t == 'conductance':
        return {**base, 'kind': 'Y', 'Y': a['G']}
    if t == 'impedance':
        return {**base, 'kind': 'Z', 'Z': a['Z']}
    if t == 'admittance':
        return {**base, 'kind': 'Y', 'Y': a['Y']}
    if t == 'capacitor':
        return {**base, 'kind': 'Y', 'Y': [0.0, w * a['C']]}
    if t == 'inductance':
        return {**base, 'kind': 'Z', 'Z': [0.0, w * a['L']]}
    if t in ('lamp', 'resistive_load'):
        return {**base, 'kind': 'Y', 'Y': a['P'] / a['V_ref'] ** 2}
    if t == 'short_circuit':
        return {**base, 'kind': 'short'}
    if t in ('dc_voltage_source', 'ac_voltage_source'):
        ws = a.get('w', 0.0) if t == 'ac_voltage_source' else 0.0
        if abs(w - ws) > w_res:
            return {**base, 'kind': 'short'}
        ph = a.get('phi', 0.0) if t == 'ac_voltage_source' else 0.0
        return _src(base, 'V', a['V'] * cmath.exp(1j * ph), a.get('R', 0), 'LV')
    if t in ('dc_current_source', 'ac_current_source'):
        ws = a.get('w', 0.0) if t == 'ac_current_source' else 0.0
        if abs(w - ws) > w_res:
            return {**base, 'kind': 'open'}
        ph = a.get('phi', 0.0) if t == 'ac_current_source' else 0.0
        return _src(base, 'I', a['I'] * cmath.exp(1j * ph), a.get('G', 0), 'LI')
    if t == 'complex_voltage_source':
        return _src(base, 'V', cx(a['V']), cx(a.get('Z', 0)), 'LV')
    if t == 'complex_current_source':
        return _src(base, 'I', cx(a['I']), cx(a.get('Y', 0)), 'LI')
    if t in ('periodic_voltage_source', 'periodic_current_source'):
        w0 = a['w']
        n = round(w / w0)
        isv = t == 'periodic_voltage_source'
        if abs(w - n * w0) > w_res or n < 0:
            return {**base, 'kind': 'short' if isv else 'open'}
        amp = a['V'] if isv else a['I']
        X = periodic_phasor(a['wavetype'], amp, w0, a.get('phi', 0.0), n)
        if X is None:
            raise ValueError('waveform shape not recognised by the Fourier oracle')
        return _src(base, 'V' if isv else 'I', X, a.get('R' if isv else 'G', 0), 'LV' if isv else 'LI')
    raise ValueError(f'no reference law for component type {t!r}')


def ref_network(cdesc, w, w_res=1e-3):
    return {'ref': ground_of(cdesc), 'branches': [b for b in (ref_branch(c, w, w_res) for c in cdesc['components']) if b is not None]}


def source_frequency(c):
    t, a = c['ctor'], c.get('args', {})
    if t in ('dc_voltage_source', 'dc_current_source'):
        return 0.0
    if t in ('ac_voltage_source', 'ac_current_source'):
        return a.get('w', 0.0)
    return None


def is_periodic(c):
    return c['ctor'] in ('periodic_voltage_source', 'periodic_current_source')


def nodes(cdesc):
    out = []
    for c in cdesc['components']:
        for n in c['nodes']:
            if n not in out:
                out.append(n)
    return out


def signature(cdesc, extra=()):
    ns = nodes(cdesc)
    deg = {n: 0 for n in ns}
    for c in cdesc['components']:
        for n in c['nodes']:
            deg[n] += 1
    g = ground_of(cdesc)
    edges = sorted((tuple(sorted(deg[n] for n in c['nodes'])), c['ctor'], tuple(n == g for n in c['nodes'])) for c in cdesc['components'])
    ids_sorted = sorted(c['id'] for c in cdesc['components'])
    order = tuple(ids_sorted.index(c['id']) for c in cdesc['components'])[:6]
    return repr((len(ns), edges, order, tuple(extra)))
