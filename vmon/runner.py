"""Generic driver: shards a property's workload over fresh interpreter processes, merges
what the monitors observed, applies guard rails, known-finding bookkeeping, writes the
evidence file and decides the three-valued verdict.

A property module (vmon/props/Cxx.py) provides
    LEVEL, RULE, ASSUMPTIONS, TITLE
    generate(tier, seed, shard, nshards) -> iterator of JSON-able case dicts
    judge(case, ctx)                      -> runs the real code under the monitors
    guards(merged, tier) -> list[str]     -> reasons for "inconclusive" (optional)
    extra_coverage(merged) -> dict        -> additional evidence keys (optional)
"""
from __future__ import annotations
import argparse, hashlib, importlib, json, os, random, subprocess, sys, tempfile, time, traceback

from . import bootstrap
from .bootstrap import VERIF_ROOT, Inconclusive

NSHARDS_DEFAULT = int(os.environ.get('VERIF_SHARDS', '16'))
SHARD_TIMEOUT = {'quick': 900, 'thorough': 5400}
CASE_LIMIT = {'quick': 60, 'thorough': 120}


class CaseTimeout(BaseException):
    pass


def h64(s: str) -> str:
    return hashlib.blake2b(s.encode('utf8', 'surrogatepass'), digest_size=8).hexdigest()


def jsonable(x):
    """Best-effort conversion of witnesses to JSON (complex, numpy, tuples, sets)."""
    try:
        import numpy as np
    except Exception:  # pragma: no cover
        np = None
    if isinstance(x, (str, int, bool)) or x is None:
        return x
    if isinstance(x, float):
        if x != x or x in (float('inf'), float('-inf')):
            return repr(x)
        return x
    if isinstance(x, complex):
        return {'re': jsonable(x.real), 'im': jsonable(x.imag)}
    if isinstance(x, dict):
        return {str(k): jsonable(v) for k, v in x.items()}
    if isinstance(x, (list, tuple, set, frozenset)):
        return [jsonable(v) for v in x]
    if np is not None:
        if isinstance(x, np.ndarray):
            return jsonable(x.tolist())
        if isinstance(x, np.generic):
            return jsonable(x.item())
    return repr(x)


class Ctx:
    """What a shard's monitors write to."""
    MAX_VIOLATIONS_PER_KEY = 3
    MAX_SAMPLES = 4

    def __init__(self, pid, tier, seed, shard, nshards):
        self.pid, self.tier, self.seed, self.shard, self.nshards = pid, tier, seed, shard, nshards
        self.rng = random.Random(f'{pid}/{seed}/{shard}')
        self.evaluations = 0
        self.sigs = set()
        self.counters = {}
        self.maxstats = {}
        self.violations = []
        self._vcount = {}
        self.samples = []
        self.harness_errors = []
        self.foreign = []
        self.case = None

    # -- bookkeeping -------------------------------------------------------------------
    def evaluated(self, sig=None, nontrivial=True):
        self.evaluations += 1
        if nontrivial and sig is not None:
            self.sigs.add(h64(sig if isinstance(sig, str) else json.dumps(jsonable(sig), sort_keys=True)))

    def count(self, name, n=1):
        self.counters[name] = self.counters.get(name, 0) + n

    def maxstat(self, name, value):
        try:
            value = float(value)
        except Exception:
            return
        if value == value and value > self.maxstats.get(name, float('-inf')):
            self.maxstats[name] = value

    def sample(self, obj):
        if len(self.samples) < self.MAX_SAMPLES:
            self.samples.append(jsonable(obj))

    def violation(self, key, what, details=None, case=None):
        """key = mechanism key (stable, never a hash or random value)."""
        self.count('violations_total')
        n = self._vcount.get(key, 0)
        self._vcount[key] = n + 1
        if n < self.MAX_VIOLATIONS_PER_KEY:
            self.violations.append({'key': key, 'what': what, 'details': jsonable(details),
                                    'case': jsonable(case if case is not None else self.case)})

    def dump(self, wall):
        return {'evaluations': self.evaluations, 'sigs': sorted(self.sigs), 'counters': self.counters,
                'maxstats': self.maxstats, 'violations': self.violations, 'vcount': self._vcount,
                'samples': self.samples, 'harness_errors': self.harness_errors[:5], 'wall': wall, 'foreign': self.foreign[:5]}


def load_module(pid):
    return importlib.import_module(f'vmon.props.{pid}')


def run_shard(pid, tier, seed, shard, nshards, out):
    t0 = time.time()
    ctx = Ctx(pid, tier, seed, shard, nshards)
    try:
        bootstrap.ensure_deps()
        bootstrap.load_repo()
        mod = load_module(pid)
        if os.environ.get('VERIF_CONTRACTS', '1') != '0':
            from . import attach
            attach.install(ctx)
        reach = _start_reach()
        if hasattr(mod, 'setup'):
            mod.setup(ctx)
        import signal, statistics
        limit = CASE_LIMIT[tier]
        durations = []

        def on_alarm(signum, frame):
            raise CaseTimeout()
        signal.signal(signal.SIGALRM, on_alarm)
        for case in mod.generate(tier, seed, shard, nshards):
            ctx.case = case
            tc = time.time()
            cpu0 = time.process_time()
            signal.alarm(limit)
            try:
                mod.judge(case, ctx)
                signal.alarm(0)
                durations.append(time.time() - tc)
            except CaseTimeout:
                signal.alarm(0)
                med = statistics.median(durations) if durations else 0.05
                # the verdict is about the code, not about the machine: a case that was merely waiting (for the CPU on a loaded machine,
                # for a child process) has used little processor time of its own - that is inconclusive, never a violation
                busy = (time.process_time() - cpu0) >= 0.8 * limit
                if busy and limit > 1000 * max(med, 0.01):
                    ctx.violation(f'{pid}/non-termination', f'one case did not finish within {limit} s (median case time in this shard {med:.3f} s)', {})
                else:
                    ctx.harness_errors.append({'case': jsonable(case), 'traceback': f'case exceeded {limit} s (median {med:.3f} s): inconclusive'})
                ctx.count('case_timeouts')
                if ctx.counters['case_timeouts'] >= 2:
                    ctx.count('shard_aborted_after_repeated_timeouts')
                    break
            except Inconclusive:
                signal.alarm(0)
                raise
            except Exception:
                signal.alarm(0)
                ctx.harness_errors.append({'case': jsonable(case), 'traceback': traceback.format_exc()[-3000:]})
                ctx.count('harness_errors')
        if hasattr(mod, 'teardown'):
            mod.teardown(ctx)
        res = ctx.dump(time.time() - t0)
        res['reach'] = sorted(reach)
    except Inconclusive as e:
        res = ctx.dump(time.time() - t0)
        res['inconclusive'] = str(e)
    except Exception:
        res = ctx.dump(time.time() - t0)
        res['inconclusive'] = 'shard crashed: ' + traceback.format_exc()[-3000:]
    with open(out, 'w') as f:
        json.dump(res, f)


def _start_reach():
    """which functions of the working-tree sources does this shard's workload actually enter?  (sys.monitoring, each code object
    reports once and is then disabled, so the cost is negligible).  Evidence of reach, and the list tools/reach.py turns into
    'functions no check ever drives'."""
    reach = set()
    try:
        mon = sys.monitoring
        src = os.path.realpath(os.path.join(bootstrap.REPO, 'src')) + os.sep
        tool = mon.PROFILER_ID
        mon.use_tool_id(tool, 'vmon-reach')

        def on_start(code, offset):
            fn = code.co_filename
            if fn.startswith(src):
                reach.add(f'{fn[len(src):]}::{code.co_qualname}')
            return mon.DISABLE

        def on_line(code, line):
            fn = code.co_filename
            if fn.startswith(src):
                reach.add(f'{fn[len(src):]}:{line}')
            return mon.DISABLE
        mon.register_callback(tool, mon.events.PY_START, on_start)
        mon.register_callback(tool, mon.events.LINE, on_line)
        mon.set_events(tool, mon.events.PY_START | mon.events.LINE)
    except Exception:
        pass
    return reach


def _ranges(nums):
    out, nums = [], sorted(nums)
    k = 0
    while k < len(nums):
        j = k
        while j + 1 < len(nums) and nums[j + 1] == nums[j] + 1:
            j += 1
        out.append(str(nums[k]) if j == k else f'{nums[k]}-{nums[j]}')
        k = j + 1
    return ','.join(out)


def _split_reach(reach):
    """function names ('file::qualname') and executed lines ('file:line') share one set; lines are reported as ranges per file"""
    names = sorted(r for r in reach if '::' in r)
    lines = {}
    for r in reach:
        if '::' not in r:
            f, _, ln = r.rpartition(':')
            lines.setdefault(f, []).append(int(ln))
    return names, {f: _ranges(v) for f, v in sorted(lines.items())}, sum(len(v) for v in lines.values())


def merge(results):
    m = {'evaluations': 0, 'sigs': set(), 'counters': {}, 'maxstats': {}, 'violations': [], 'vcount': {},
         'samples': [], 'harness_errors': [], 'inconclusive': [], 'wall': 0.0, 'foreign': [], 'reach': set()}
    for r in results:
        m['reach'].update(r.get('reach', []))
        m['evaluations'] += r.get('evaluations', 0)
        m['sigs'].update(r.get('sigs', []))
        for k, v in r.get('counters', {}).items():
            m['counters'][k] = m['counters'].get(k, 0) + v
        for k, v in r.get('vcount', {}).items():
            m['vcount'][k] = m['vcount'].get(k, 0) + v
        for k, v in r.get('maxstats', {}).items():
            m['maxstats'][k] = max(m['maxstats'].get(k, float('-inf')), v)
        m['violations'].extend(r.get('violations', []))
        if len(m['samples']) < 5:
            m['samples'].extend(r.get('samples', [])[:2])
        m['harness_errors'].extend(r.get('harness_errors', []))
        if len(m['foreign']) < 8:
            m['foreign'].extend(r.get('foreign', [])[:2])
        if r.get('inconclusive'):
            m['inconclusive'].append(r['inconclusive'])
        m['wall'] = max(m['wall'], r.get('wall', 0.0))
    return m


def load_known(pid):
    path = os.path.join(VERIF_ROOT, 'known_findings.json')
    try:
        with open(path) as f:
            data = json.load(f)
    except FileNotFoundError:
        return []
    return [e for e in data.get('findings', []) if e.get('property') == pid]


def main(argv=None):
    ap = argparse.ArgumentParser()
    ap.add_argument('pid')
    ap.add_argument('--tier', default=os.environ.get('VERIF_TIER', 'quick'), choices=['quick', 'thorough'])
    ap.add_argument('--seed', type=int, default=int(os.environ.get('VERIF_SEED', '0') or 0))
    ap.add_argument('--replay')
    ap.add_argument('--shard')       # internal: "i/n"
    ap.add_argument('--out')         # internal
    ap.add_argument('--shards', type=int, default=NSHARDS_DEFAULT)
    a = ap.parse_args(argv)
    pid = a.pid

    if a.shard:
        i, n = map(int, a.shard.split('/'))
        run_shard(pid, a.tier, a.seed, i, n, a.out)
        return 0
    if a.replay:
        return replay(pid, a.replay)

    t0 = time.time()
    try:
        mod_probe = subprocess.run([sys.executable, '-s', '-c',
                                    f'import vmon.props.{pid} as m; print(getattr(m, "NSHARDS", 0))'],
                                   capture_output=True, text=True, cwd=VERIF_ROOT, timeout=120)
        nshards = int(mod_probe.stdout.strip() or 0) or a.shards
    except Exception:
        nshards = a.shards
    nshards = max(1, min(nshards, a.shards))
    tmpdir = tempfile.mkdtemp(prefix=f'vmon-{pid}-', dir=os.environ.get('VERIF_TMP') or None)
    procs = []
    for i in range(nshards):
        out = os.path.join(tmpdir, f'shard{i}.json')
        log = open(os.path.join(tmpdir, f'shard{i}.log'), 'w')
        p = subprocess.Popen([sys.executable, '-s', '-m', 'vmon.runner', pid, '--tier', a.tier, '--seed', str(a.seed),
                              '--shard', f'{i}/{nshards}', '--out', out], cwd=VERIF_ROOT, stdout=log, stderr=subprocess.STDOUT)
        procs.append((p, out, log))
    results = []
    deadline = time.time() + SHARD_TIMEOUT[a.tier]
    for i, (p, out, log) in enumerate(procs):
        try:
            p.wait(timeout=max(1, deadline - time.time()))
        except subprocess.TimeoutExpired:
            p.kill()
            results.append({'inconclusive': f'shard {i} killed by the watchdog'})
            continue
        finally:
            log.close()
        try:
            with open(out) as f:
                results.append(json.load(f))
        except Exception:
            tail = ''
            try:
                tail = open(os.path.join(tmpdir, f'shard{i}.log')).read()[-1500:]
            except Exception:
                pass
            results.append({'inconclusive': f'shard {i} produced no result (exit {p.returncode}): {tail}'})
    m = merge(results)
    import shutil
    shutil.rmtree(tmpdir, ignore_errors=True)
    wall = time.time() - t0
    return conclude(pid, a.tier, a.seed, m, wall)


def conclude(pid, tier, seed, m, wall):
    mod = load_module(pid)
    known = load_known(pid)
    known_keys = {e['key']: e for e in known if e.get('status') == 'known'}
    reasons = list(m['inconclusive'])
    if m['harness_errors']:
        reasons.append(f"{len(m['harness_errors'])} harness error(s); first: {m['harness_errors'][0]['traceback'][-600:]}")
    if hasattr(mod, 'guards'):
        reasons.extend(mod.guards(m, tier))
    if len(m['sigs']) < 2:
        reasons.append('fewer than 2 distinct non-trivial cases were judged')

    new_by_key, known_seen = {}, {}
    for v in m['violations']:
        if v['key'] in known_keys:
            known_seen.setdefault(v['key'], v)
        else:
            new_by_key.setdefault(v['key'], v)

    lines = []
    replay_dir = os.path.join(VERIF_ROOT, 'replays', pid)
    for key, v in sorted(new_by_key.items()):
        os.makedirs(replay_dir, exist_ok=True)
        name = ''.join(c if c.isalnum() or c in '-_.' else '_' for c in key)[:80]
        path = os.path.join(replay_dir, f'{name}-{h64(json.dumps(v["case"], sort_keys=True))}.json')
        with open(path, 'w') as f:
            json.dump({'property': pid, 'key': key, 'what': v['what'], 'details': v['details'], 'case': v['case'],
                       'tier': tier, 'seed': seed}, f, indent=1)
        lines.append(f'VIOLATION property={pid} replay={os.path.relpath(path, VERIF_ROOT)}  # {key}: {v["what"]} (x{m["vcount"].get(key, 1)})')
    for key, e in sorted(known_keys.items()):
        seen = m['vcount'].get(key, 0)
        lines.append(f'KNOWN-FINDING: property={pid} {e["what_fails"]} [key={key}; observed {seen}x in this run]')

    cov = {
        'evaluations': int(m['evaluations']),
        'distinct_nontrivial': len(m['sigs']),
        'rule': mod.RULE,
        'samples': m['samples'][:5] or [{'note': 'no sample recorded'}],
        'counters': {k: v for k, v in sorted(m['counters'].items()) if not k.startswith('contract_') and k != '_foreign'},
        'contract_evaluations': {k[len('contract_'):]: v for k, v in sorted(m['counters'].items()) if k.startswith('contract_')},
        'foreign_contract_firings': {'count': m['counters'].get('_foreign', 0), 'examples': m['foreign'][:5]},
        'max_observed': {k: v for k, v in sorted(m['maxstats'].items())},
        'known_findings_seen': {k: m['vcount'].get(k, 0) for k in known_keys},
        'new_violation_keys': sorted(new_by_key),
        'inconclusive_reasons': reasons,
        'repo_functions_entered': {'count': len(_split_reach(m['reach'])[0]), 'names': _split_reach(m['reach'])[0]},
        'repo_lines_executed': {'count': _split_reach(m['reach'])[2], 'by_file': _split_reach(m['reach'])[1]},
        'exhaustive': bool(getattr(mod, 'EXHAUSTIVE', {}).get(tier, False)) if isinstance(getattr(mod, 'EXHAUSTIVE', None), dict) else False,
    }
    if hasattr(mod, 'extra_coverage'):
        try:
            cov.update(mod.extra_coverage(m))
        except Exception as e:  # evidence must still be written
            cov['extra_coverage_error'] = repr(e)
    ev = {'property_id': pid, 'tier': tier, 'seed': int(seed), 'level': mod.LEVEL, 'coverage': cov,
          'assumptions': list(mod.ASSUMPTIONS), 'wall_s': round(wall, 2), 'violations': len(new_by_key)}
    evdir = os.environ.get('VERIF_EVIDENCE_DIR') or os.path.join(VERIF_ROOT, 'evidence')      # scratch runs against mutants write elsewhere
    os.makedirs(evdir, exist_ok=True)
    with open(os.path.join(evdir, f'{pid}.json'), 'w') as f:
        json.dump(ev, f, indent=1, sort_keys=False)
        f.write('\n')

    print(f'[{pid}] {mod.TITLE}')
    print(f'[{pid}] tier={tier} seed={seed} evaluations={m["evaluations"]} distinct_nontrivial={len(m["sigs"])} wall={wall:.1f}s')
    ctr = ' '.join(f'{k}={v}' for k, v in sorted(m['counters'].items()) if not k.startswith('contract_') and k != '_foreign')
    ctr += ' | contracts: ' + ' '.join(f'{k[9:]}={v}' for k, v in sorted(m['counters'].items()) if k.startswith('contract_'))
    if m['counters'].get('_foreign'):
        ctr += f" | foreign contract firings: {m['counters']['_foreign']}"
    print(f'[{pid}] observed: {ctr}')
    for ln in lines:
        print(ln)
    if new_by_key:
        print(f'[{pid}] verdict: VIOLATED ({len(new_by_key)} distinct mechanism(s))')
        return 1
    if reasons:
        for r in reasons:
            print(f'INCONCLUSIVE property={pid} reason={r}')
        return 3
    print(f'[{pid}] verdict: held on everything observed')
    return 0


def replay(pid, path):
    bootstrap.ensure_deps()
    bootstrap.load_repo()
    mod = load_module(pid)
    with open(path) as f:
        rec = json.load(f)
    ctx = Ctx(pid, rec.get('tier', 'quick'), rec.get('seed', 0), 0, 1)
    if os.environ.get('VERIF_CONTRACTS', '1') != '0':
        from . import attach
        attach.install(ctx)
    if hasattr(mod, 'setup'):
        mod.setup(ctx)
    ctx.case = rec['case']
    mod.judge(rec['case'], ctx)
    print(json.dumps({'case': rec['case'], 'violations': ctx.violations, 'counters': ctx.counters}, indent=1))
    known_keys = {e['key'] for e in load_known(pid) if e.get('status') == 'known'}
    new = [v for v in ctx.violations if v['key'] not in known_keys]
    if new:
        print(f'VIOLATION property={pid} replay={path}  # {new[0]["key"]}: {new[0]["what"]}')
        return 1
    print(f'[{pid}] replay: no violation')
    return 0


if __name__ == '__main__':
    sys.exit(main())
