"""Exact linear algebra over the Gaussian rationals Q(i) (and over Q when everything is real).

Every binary64 input is an exact rational, so nothing is approximated: the rank decision
("is the network well-posed?") and the reference solution are exact."""
from __future__ import annotations
from fractions import Fraction

ZERO = Fraction(0)


class QC:
    """a + b*i with Fraction parts."""
    __slots__ = ('re', 'im')

    def __init__(self, re=ZERO, im=ZERO):
        self.re = re
        self.im = im

    @staticmethod
    def of(x) -> 'QC':
        if isinstance(x, QC):
            return x
        if isinstance(x, complex):
            return QC(Fraction(x.real), Fraction(x.imag))
        return QC(Fraction(x), ZERO)

    def __add__(self, o):
        o = QC.of(o)
        return QC(self.re + o.re, self.im + o.im)
    __radd__ = __add__

    def __sub__(self, o):
        o = QC.of(o)
        return QC(self.re - o.re, self.im - o.im)

    def __rsub__(self, o):
        return QC.of(o) - self

    def __neg__(self):
        return QC(-self.re, -self.im)

    def __mul__(self, o):
        o = QC.of(o)
        if not self.im and not o.im:
            return QC(self.re * o.re, ZERO)
        return QC(self.re * o.re - self.im * o.im, self.re * o.im + self.im * o.re)
    __rmul__ = __mul__

    def __truediv__(self, o):
        o = QC.of(o)
        if not o.im:
            return QC(self.re / o.re, self.im / o.re)
        d = o.re * o.re + o.im * o.im
        return QC((self.re * o.re + self.im * o.im) / d, (self.im * o.re - self.re * o.im) / d)

    def __rtruediv__(self, o):
        return QC.of(o) / self

    def __bool__(self):
        return bool(self.re) or bool(self.im)

    def __eq__(self, o):
        o = QC.of(o)
        return self.re == o.re and self.im == o.im

    def __hash__(self):
        return hash((self.re, self.im))

    def conj(self):
        return QC(self.re, -self.im)

    def __complex__(self):
        return complex(float(self.re), float(self.im))

    def __repr__(self):
        return f'QC({self.re}, {self.im})'


def to_q(x):
    """float/int/complex/[re,im] -> exact field element (QC)."""
    if isinstance(x, QC):
        return x
    if isinstance(x, (list, tuple)) and len(x) == 2:
        return QC(Fraction(x[0]), Fraction(x[1]))
    if isinstance(x, complex):
        return QC(Fraction(x.real), Fraction(x.imag))
    return QC(Fraction(x), ZERO)


def solve(A, b):
    """Gauss-Jordan over QC with sparse rows (dict col->value).

    A: list of dict[int, QC]; b: list of QC.  Returns (rank, solution or None).
    solution is returned only if the system is square-determined: unique solution.
    Inconsistent or rank-deficient systems return (rank, None)."""
    n_rows = len(A)
    n_cols = 1 + max((max(r) for r in A if r), default=-1)
    rows = [dict((c, v) for c, v in r.items() if v) for r in A]
    rhs = list(b)
    pivot_of_col = {}
    used = [False] * n_rows
    for col in range(n_cols):
        # choose the sparsest available row having this column
        best, best_len = -1, None
        for r in range(n_rows):
            if not used[r] and col in rows[r]:
                ln = len(rows[r])
                if best_len is None or ln < best_len:
                    best, best_len = r, ln
        if best < 0:
            continue
        used[best] = True
        pivot_of_col[col] = best
        prow = rows[best]
        pv = prow[col]
        if pv != 1:
            inv = QC(Fraction(1), ZERO) / pv
            for c in list(prow):
                prow[c] = prow[c] * inv
            rhs[best] = rhs[best] * inv
        for r in range(n_rows):
            if r == best:
                continue
            f = rows[r].get(col)
            if not f:
                continue
            rr = rows[r]
            for c, v in prow.items():
                nv = rr.get(c)
                nv = (nv - f * v) if nv is not None else -(f * v)
                if nv:
                    rr[c] = nv
                else:
                    rr.pop(c, None)
            rhs[r] = rhs[r] - f * rhs[best]
    rank = len(pivot_of_col)
    if rank < n_cols:
        return rank, None
    for r in range(n_rows):
        if not used[r] and rhs[r]:
            return rank, None        # inconsistent
    x = [None] * n_cols
    for col, r in pivot_of_col.items():
        x[col] = rhs[r]
    return rank, x
