"""Independent Fourier-coefficient oracle for the library's built-in periodic waveforms.

Works on the waveform's OWN time function (sampled), as property C08 demands:
  x(t) ~ A0 + sum_{n>=1} A_n cos(n w0 t + phi_n)   with   X_n := A_n e^{j phi_n} = (2/T) * int_0^T x(t) e^{-j n w0 t} dt,
  X_0 = (1/T) int x.
Shapes recognised by sampling (3 points define the law, further points confirm it):
  * affine on each of the two half-period pieces starting at t = -t0 (t0 = phase/2pi * T)   -> closed form
  * offset + single sinusoid at w0                                                         -> closed form
  * constant                                                                               -> closed form
anything else -> numeric quadrature (only for small n) or 'unknown'."""
from __future__ import annotations
import cmath, math
import numpy as np


def _eval(f, ts):
    return np.asarray(f(np.asarray(ts, dtype=float)), dtype=float).reshape(-1)


class Shape:
    def __init__(self, kind, **kw):
        self.kind = kind
        self.__dict__.update(kw)


def recognise(time_function, T, phase):
    """-> Shape"""
    t0 = phase / (2 * math.pi) * T
    scale = None
    # constant?
    probe = np.linspace(0.0137 * T, 0.9871 * T, 23)
    xs = _eval(time_function, probe)
    scale = max(1e-300, float(np.max(np.abs(xs))))
    if np.max(np.abs(xs - xs[0])) <= 1e-12 * scale:
        return Shape('const', c=float(xs[0]), scale=scale)
    # single sinusoid + offset?  least squares on [1, cos, sin]
    w0 = 2 * math.pi / T
    M = np.stack([np.ones_like(probe), np.cos(w0 * probe), np.sin(w0 * probe)], axis=1)
    coef, *_ = np.linalg.lstsq(M, xs, rcond=None)
    if np.max(np.abs(M @ coef - xs)) <= 1e-10 * scale:
        return Shape('sinus', c=float(coef[0]), a=float(coef[1]), b=float(coef[2]), scale=scale)
    # affine on the two half-period pieces [-t0, -t0+T/2), [-t0+T/2, -t0+T)
    pieces = []
    for k in (0, 1):
        lo = -t0 + k * T / 2
        hi = lo + T / 2
        ts = lo + (hi - lo) * np.array([0.06, 0.21, 0.37, 0.5, 0.66, 0.81, 0.94])
        ys = _eval(time_function, ts)
        beta = (ys[-1] - ys[0]) / (ts[-1] - ts[0])
        alpha = ys[0] - beta * ts[0]
        if np.max(np.abs(alpha + beta * ts - ys)) > 1e-9 * scale:
            return Shape('unknown', scale=scale)
        pieces.append((lo, hi, float(alpha), float(beta)))
    return Shape('affine2', pieces=pieces, scale=scale)


def _int_affine_exp(alpha, beta, lo, hi, k):
    """int_lo^hi (alpha + beta t) e^{-j k t} dt  (k real, may be 0)."""
    if k == 0:
        return alpha * (hi - lo) + beta * (hi * hi - lo * lo) / 2
    def F(t):
        e = cmath.exp(-1j * k * t)
        return (alpha + beta * t) * e / (-1j * k) - beta * e / ((-1j * k) ** 2)
    return F(hi) - F(lo)


def coefficient(shape, T, n):
    """X_n (complex) for n >= 0; None if the shape is unknown."""
    w0 = 2 * math.pi / T
    if shape.kind == 'const':
        return complex(shape.c) if n == 0 else 0j
    if shape.kind == 'sinus':
        if n == 0:
            return complex(shape.c)
        if n == 1:
            return complex(shape.a, -shape.b)        # a cos + b sin = Re[(a - jb) e^{jwt}]
        return 0j
    if shape.kind == 'affine2':
        tot = 0j
        for lo, hi, alpha, beta in shape.pieces:
            tot += _int_affine_exp(alpha, beta, lo, hi, n * w0)
        return tot / T if n == 0 else 2 * tot / T
    return None


def mean_square(shape, T):
    """(1/T) int x^2 dt in closed form."""
    if shape.kind == 'const':
        return shape.c ** 2
    if shape.kind == 'sinus':
        return shape.c ** 2 + (shape.a ** 2 + shape.b ** 2) / 2
    if shape.kind == 'affine2':
        tot = 0.0
        for lo, hi, al, be in shape.pieces:
            # int (al + be t)^2 = al^2 t + al be t^2 + be^2 t^3/3
            F = lambda t: al * al * t + al * be * t * t + be * be * t ** 3 / 3
            tot += F(hi) - F(lo)
        return tot / T
    return None
