"""Independent transient reference: trapezoidal companion models on the float sparse tableau
(every node potential and every branch current is an unknown), with Richardson extrapolation.
Shares no code and no formulation with the library's state-space route."""
from __future__ import annotations
import numpy as np
import scipy.linalg as sla


def simulate(cdesc, ground, t_end, n_steps, inputs):
    """cdesc: circuit description restricted to resistor/conductance/capacitor/inductance/ideal sources.
    inputs: dict source id -> callable(t array) -> values.  Start at rest.
    Returns dict(t, phi{node: array}, i{id: array (physical n1->n2)})."""
    comps = [c for c in cdesc['components'] if c['ctor'] != 'ground']
    nodes = []
    for c in comps:
        for n in c['nodes']:
            if n not in nodes and n != ground:
                nodes.append(n)
    nidx = {n: k for k, n in enumerate(nodes)}
    N, Bn = len(nodes), len(comps)
    h = t_end / n_steps
    t = np.arange(n_steps + 1) * h
    M = np.zeros((N + Bn, N + Bn))
    kindrow = []
    for j, c in enumerate(comps):
        col = N + j
        a, b = c['nodes']
        if a in nidx:
            M[nidx[a], col] += 1
        if b in nidx:
            M[nidx[b], col] -= 1
        row = N + j

        def add_u(coef):
            if a in nidx:
                M[row, nidx[a]] += coef
            if b in nidx:
                M[row, nidx[b]] -= coef
        t_ = c['ctor']
        ar = c['args']
        if t_ == 'resistor':
            add_u(1.0); M[row, col] = -ar['R']; kindrow.append(('R', None))
        elif t_ == 'conductance':
            add_u(-ar['G']); M[row, col] = 1.0; kindrow.append(('R', None))
        elif t_ == 'capacitor':
            # i_{n+1} - (2C/h) u_{n+1} = -(2C/h) u_n - i_n
            g = 2 * ar['C'] / h
            add_u(-g); M[row, col] = 1.0; kindrow.append(('C', g))
        elif t_ == 'inductance':
            # u_{n+1} - (2L/h) i_{n+1} = -(2L/h) i_n - u_n
            r = 2 * ar['L'] / h
            add_u(1.0); M[row, col] = -r; kindrow.append(('L', r))
        elif t_.endswith('voltage_source'):
            add_u(1.0); kindrow.append(('V', c['id']))
        elif t_.endswith('current_source'):
            M[row, col] = 1.0; kindrow.append(('I', c['id']))
        else:
            raise ValueError(f'transient reference: unsupported component {t_}')
    lu = sla.lu_factor(M)
    U = {sid: np.asarray(f(t), dtype=float).reshape(-1) for sid, f in inputs.items()}
    x = np.zeros(N + Bn)
    X = np.zeros((n_steps + 1, N + Bn))
    if any(U[p][0] != 0 for kd, p in kindrow if kd in ('V', 'I')):
        # an input is already on at t = 0: the states are at rest (u_C = 0, i_L = 0) but the algebraic unknowns are not zero;
        # consistent initial values from the same tableau with every capacitor row 'u = 0' and every inductor row 'i = 0'
        M0 = M.copy()
        rhs0 = np.zeros(N + Bn)
        for j, (kd, p) in enumerate(kindrow):
            row, col = N + j, N + j
            a, b = comps[j]['nodes']
            if kd in ('C', 'L'):
                M0[row, :] = 0.0
                if kd == 'C':
                    if a in nidx:
                        M0[row, nidx[a]] += 1.0
                    if b in nidx:
                        M0[row, nidx[b]] -= 1.0
                else:
                    M0[row, col] = 1.0
            elif kd in ('V', 'I'):
                rhs0[row] = U[p][0]
        x = np.linalg.solve(M0, rhs0)
        X[0] = x

    def u_of(xv, j):
        c = comps[j]
        a, b = c['nodes']
        return (xv[nidx[a]] if a in nidx else 0.0) - (xv[nidx[b]] if b in nidx else 0.0)
    for k in range(1, n_steps + 1):
        rhs = np.zeros(N + Bn)
        for j, (kd, p) in enumerate(kindrow):
            if kd == 'C':
                rhs[N + j] = -p * u_of(x, j) - x[N + j]
            elif kd == 'L':
                rhs[N + j] = -p * x[N + j] - u_of(x, j)
            elif kd in ('V', 'I'):
                rhs[N + j] = U[p][k]
        x = sla.lu_solve(lu, rhs)
        X[k] = x
    phi = {n: X[:, nidx[n]] for n in nodes}
    phi[ground] = np.zeros(n_steps + 1)
    cur = {c['id']: X[:, N + j] for j, c in enumerate(comps)}
    return {'t': t, 'phi': phi, 'i': cur}


def richardson(cdesc, ground, t_end, n_coarse, inputs, refine=4):
    """4th-order accurate values on the coarse grid from trapezoidal runs with refine*n and 2*refine*n steps."""
    a = simulate(cdesc, ground, t_end, n_coarse * refine, inputs)
    b = simulate(cdesc, ground, t_end, n_coarse * refine * 2, inputs)
    out = {'t': a['t'][::refine], 'phi': {}, 'i': {}, 'err': {}}
    worst = 0.0
    for grp in ('phi', 'i'):
        for k in a[grp]:
            xa, xb = a[grp][k][::refine], b[grp][k][::2 * refine]
            out[grp][k] = xb + (xb - xa) / 3.0
            worst = max(worst, float(np.max(np.abs(xb - xa))) / max(1e-300, float(np.max(np.abs(xb)))) if np.max(np.abs(xb)) > 0 else 0.0)
    out['richardson_gap'] = worst
    return out
