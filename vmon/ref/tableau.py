"""Independent reference model of a linear network: sparse tableau (every node potential and
every branch current is an unknown; KCL per non-reference node + one constitutive law per
branch), solved exactly.  Deliberately *not* nodal analysis.

Network description (plain JSON):
    {'ref': <node>, 'branches': [ {'id','n1','n2','kind', <params>} ... ]}
kinds and params (numbers are floats or [re, im] pairs):
    'Z'   : passive impedance            Z           u - Z i = 0      (Z = 0 -> short, inf -> open)
    'Y'   : passive admittance           Y           i - Y u = 0      (Y = 0 -> open)
    'V'   : ideal voltage source         V           u = V
    'I'   : ideal current source         I           i = I
    'LV'  : linear (lossy) voltage src   V, Z        Z i - u = V      reported current = -i
    'LI'  : linear (lossy) current src   I, Y        i - Y u = I      reported current = -i
    'open', 'short'
u = phi(n1) - phi(n2), i = physical current through the branch from n1 to n2.
"""
from __future__ import annotations
import math
from fractions import Fraction
from .exact import QC, to_q, solve, ZERO

ONE = QC(Fraction(1), ZERO)
QZERO = QC(ZERO, ZERO)

REPORT_SIGN = {'Z': 1, 'Y': 1, 'V': 1, 'I': 1, 'LV': -1, 'LI': -1, 'open': 1, 'short': 1}


def _isinf(x):
    if isinstance(x, (list, tuple)):
        return any(math.isinf(float(v)) for v in x)
    if isinstance(x, complex):
        return math.isinf(x.real) or math.isinf(x.imag)
    return math.isinf(float(x))


def normalise(branch):
    """Map degenerate parameter values to the kind they physically are."""
    k = branch['kind']
    if k == 'Z':
        if _isinf(branch['Z']):
            return 'open', {}
        z = to_q(branch['Z'])
        if not z:
            return 'short', {}
        return 'Z', {'Z': z}
    if k == 'Y':
        if _isinf(branch['Y']):
            return 'short', {}
        y = to_q(branch['Y'])
        if not y:
            return 'open', {}
        return 'Y', {'Y': y}
    if k == 'V':
        return 'V', {'V': to_q(branch['V'])}
    if k == 'I':
        return 'I', {'I': to_q(branch['I'])}
    if k == 'LV':
        return 'LV', {'V': to_q(branch['V']), 'Z': to_q(branch['Z'])}
    if k == 'LI':
        return 'LI', {'I': to_q(branch['I']), 'Y': to_q(branch['Y'])}
    if k in ('open', 'short'):
        return k, {}
    raise ValueError(f'unknown reference kind {k!r}')


def nodes_of(net):
    ns = []
    for b in net['branches']:
        for n in (b['n1'], b['n2']):
            if n not in ns:
                ns.append(n)
    if net['ref'] not in ns:
        ns.append(net['ref'])
    return ns


def solve_network(net, deactivate=False, inject=None):
    """Exact solution.  Returns dict(unique, phi{node: QC}, i{id: QC physical}, kinds{id}).

    deactivate=True zeroes every independent source (V -> short, I -> open, linear sources keep
    their immittance).  inject=(a, b) adds an ideal 1 A test source driving current from b to a
    through the source (i.e. *into* node a), for port-impedance measurements."""
    ref = net['ref']
    ns = [n for n in nodes_of(net) if n != ref]
    nidx = {n: k for k, n in enumerate(ns)}
    nb = len(net['branches'])
    N = len(ns)
    rows, rhs = [], []
    kcl = [dict() for _ in ns]
    kinds = {}
    for j, b in enumerate(net['branches']):
        col = N + j
        kind, p = normalise(b)
        kinds[b['id']] = kind
        if b['n1'] in nidx:
            r = kcl[nidx[b['n1']]]
            r[col] = r.get(col, QZERO) + ONE
        if b['n2'] in nidx:
            r = kcl[nidx[b['n2']]]
            r[col] = r.get(col, QZERO) - ONE
        law, c = {}, QZERO

        def add_u(coef):
            if b['n1'] in nidx:
                law[nidx[b['n1']]] = law.get(nidx[b['n1']], QZERO) + coef
            if b['n2'] in nidx:
                law[nidx[b['n2']]] = law.get(nidx[b['n2']], QZERO) - coef
        if kind == 'Z':
            add_u(ONE); law[col] = -p['Z']
        elif kind == 'Y':
            add_u(-p['Y']); law[col] = ONE
        elif kind == 'V':
            add_u(ONE); c = QZERO if deactivate else p['V']
        elif kind == 'I':
            law[col] = ONE; c = QZERO if deactivate else p['I']
        elif kind == 'LV':
            add_u(-ONE); law[col] = p['Z']; c = QZERO if deactivate else p['V']
        elif kind == 'LI':
            add_u(-p['Y']); law[col] = ONE; c = QZERO if deactivate else p['I']
        elif kind == 'open':
            law[col] = ONE
        elif kind == 'short':
            add_u(ONE)
        rows.append(law); rhs.append(c)
    krhs = [QZERO for _ in ns]
    if inject is not None:
        a, bnode = inject
        # KCL row: sum of branch currents leaving node = injected current into node
        if a in nidx:
            krhs[nidx[a]] = krhs[nidx[a]] + ONE
        if bnode in nidx:
            krhs[nidx[bnode]] = krhs[nidx[bnode]] - ONE
    A = kcl + rows
    bvec = krhs + rhs
    ncols = N + nb
    for r in A:                      # make sure the column count is visible to the solver
        pass
    # pad: ensure solve() sees all columns (a column absent from every row => rank deficient)
    present = set()
    for r in A:
        present.update(c for c, v in r.items() if v)
    if len(present) < ncols:
        return {'unique': False, 'phi': {}, 'i': {}, 'kinds': kinds}
    rank, x = solve(A, bvec)
    if x is None:
        return {'unique': False, 'phi': {}, 'i': {}, 'kinds': kinds}
    phi = {n: x[nidx[n]] for n in ns}
    phi[ref] = QZERO
    cur = {b['id']: x[N + j] for j, b in enumerate(net['branches'])}
    return {'unique': True, 'phi': phi, 'i': cur, 'kinds': kinds}


def reported(sol, net):
    """Quantities in the library's documented reference directions, as Python complex numbers."""
    out = {'phi': {n: complex(v) for n, v in sol['phi'].items()}, 'V': {}, 'I': {}, 'P': {}}
    for b in net['branches']:
        u = sol['phi'][b['n1']] - sol['phi'][b['n2']]
        i = sol['i'][b['id']]
        s = REPORT_SIGN[sol['kinds'][b['id']]] if b['kind'] in ('LV', 'LI') else 1
        # a linear source keeps its generator convention even if normalise() saw it as-is
        if b['kind'] in ('LV', 'LI'):
            s = -1
        irep = i if s == 1 else -i
        out['V'][b['id']] = complex(u)
        out['I'][b['id']] = complex(irep)
        out['P'][b['id']] = complex(u * irep.conj())
    return out


def port_part(net, a, b):
    """The deactivated network restricted to what is conductively attached to node a (reference b);
    None if b is not attached (infinite port impedance)."""
    conducting = []
    for br in net['branches']:
        kind, _ = normalise(br)
        if kind in ('open', 'I'):
            continue
        if kind == 'V':
            br = {**br, 'kind': 'short'}
        conducting.append(br)
    comp, frontier = {a}, [a]
    while frontier:
        n = frontier.pop()
        for br in conducting:
            for x, y in ((br['n1'], br['n2']), (br['n2'], br['n1'])):
                if x == n and y not in comp:
                    comp.add(y); frontier.append(y)
    if b not in comp:
        return None
    return {'ref': b, 'branches': [br for br in conducting if br['n1'] in comp and br['n2'] in comp]}


def port_impedance(net, a, b):
    """Exact driving-point impedance between nodes a and b with all sources deactivated.
    Returns (status, Z): status in 'ok' | 'detached' (no conducting path between a and b: Z is infinite) | 'infinite' (no unique solution)."""
    if a == b:
        return 'ok', 0j
    # keep only the part of the deactivated network that is conductively attached to the port
    conducting = []
    for br in net['branches']:
        kind, _ = normalise(br)
        if kind in ('open', 'I'):
            continue
        conducting.append(br)
    comp, frontier = {a}, [a]
    while frontier:
        n = frontier.pop()
        for br in conducting:
            for x, y in ((br['n1'], br['n2']), (br['n2'], br['n1'])):
                if x == n and y not in comp:
                    comp.add(y); frontier.append(y)
    if b not in comp:
        return 'detached', None            # no conducting path at all between the two nodes: the impedance is infinite
    sub = {'ref': b, 'branches': [br for br in conducting if br['n1'] in comp and br['n2'] in comp]}
    sol = solve_network(sub, deactivate=True, inject=(a, b))
    if not sol['unique']:
        return 'infinite', None
    return 'ok', complex(sol['phi'][a] - sol['phi'][b])
