"""Float MNA assembled independently from a reference description; used ONLY to size tolerances
(condition number) and natural scales -- never as truth."""
from __future__ import annotations
import numpy as np
from .tableau import normalise, nodes_of


def kappa_and_scales(ref_net):
    ref = ref_net['ref']
    ns = [n for n in nodes_of(ref_net) if n != ref]
    idx = {n: k for k, n in enumerate(ns)}
    N = len(ns)
    vs = []
    Y = np.zeros((N, N), dtype=complex)
    ymax, vmax, imax, zmax = 0.0, 0.0, 0.0, 0.0
    for b in ref_net['branches']:
        kind, p = normalise(b)
        y = None
        if kind == 'Z':
            y = 1 / complex(p['Z'])
        elif kind == 'Y':
            y = complex(p['Y'])
        elif kind == 'LV':
            y = 1 / complex(p['Z'])
            vmax = max(vmax, abs(complex(p['V'])))
        elif kind == 'LI':
            y = complex(p['Y'])
            imax = max(imax, abs(complex(p['I'])))
        elif kind == 'V':
            vmax = max(vmax, abs(complex(p['V'])))
            vs.append(b)
        elif kind == 'short':
            vs.append(b)
        elif kind == 'I':
            imax = max(imax, abs(complex(p['I'])))
        if y is not None:
            ymax = max(ymax, abs(y))
            zmax = max(zmax, 1 / abs(y))
            a, c = idx.get(b['n1']), idx.get(b['n2'])
            if a is not None:
                Y[a, a] += y
            if c is not None:
                Y[c, c] += y
            if a is not None and c is not None:
                Y[a, c] -= y
                Y[c, a] -= y
    B = np.zeros((N, len(vs)))
    for k, b in enumerate(vs):
        if b['n1'] in idx:
            B[idx[b['n1']], k] = 1
        if b['n2'] in idx:
            B[idx[b['n2']], k] = -1
    A = np.block([[Y, B], [B.T, np.zeros((len(vs), len(vs)))]]) if N + len(vs) else np.zeros((0, 0))
    try:
        kappa = float(np.linalg.cond(A)) if A.size else 1.0
    except Exception:
        kappa = float('inf')
    if not np.isfinite(kappa):
        kappa = float('inf')
    return kappa, {'ymax': ymax, 'zmax': zmax, 'vmax': vmax, 'imax': imax}


def tolerance(kappa):
    return 1e-9 + 256.0 * kappa * 2.0 ** -53
