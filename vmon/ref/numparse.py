"""Independent decimal parser for the numbers the library renders (C18, C14).

parse_real(text, unit, prefixes) -> Parsed(sign, mantissa: Decimal, exponent: int, digits, infinite)
The grammar is the documented output format:  [-]digits[.digits][e[-]digits][prefix]unit  |  [-]∞
"""
from __future__ import annotations
import re
from decimal import Decimal
from dataclasses import dataclass

NUM = re.compile(r'^(?P<sign>-?)(?P<int>\d+)(?:\.(?P<frac>\d+))?(?:e(?P<exp>-?\d+))?(?P<prefix>.?)$', re.S)


@dataclass
class Parsed:
    value: Decimal | None       # exact decimal value of the text (None for infinity)
    mantissa: Decimal | None
    exponent: int | None        # total decimal exponent (prefix + explicit extension)
    sig_digits: int | None
    infinite: int = 0           # +1 / -1 / 0
    negative_zero_sign: bool = False


class ParseError(ValueError):
    pass


def parse_real(text: str, unit: str, prefixes: dict[int, str] | None) -> Parsed:
    t = text
    if t in ('∞', '-∞'):          # the infinity sign is rendered without unit
        return Parsed(None, None, None, None, infinite=-1 if t.startswith('-') else 1)
    if unit:
        if not t.endswith(unit):
            raise ParseError(f'{text!r} does not end with the unit {unit!r}')
        t = t[:len(t) - len(unit)]
    if t in ('∞', '-∞'):
        return Parsed(None, None, None, None, infinite=-1 if t.startswith('-') else 1)
    m = NUM.match(t)
    if not m:
        raise ParseError(f'{text!r} is not a number in the documented format')
    pexp = 0
    pf = m.group('prefix')
    if pf:
        inv = {v: k for k, v in (prefixes or {}).items()}
        if pf not in inv:
            raise ParseError(f'{text!r}: unknown prefix {pf!r}')
        pexp = inv[pf]
    eexp = int(m.group('exp')) if m.group('exp') is not None else 0
    frac = m.group('frac') or ''
    mant = Decimal(m.group('int') + ('.' + frac if frac else ''))
    if m.group('sign'):
        mant = -mant
    exponent = pexp + eexp
    digits = len((m.group('int').lstrip('0') + frac) if m.group('int').strip('0') else frac.lstrip('0')) or 1
    return Parsed(mant.scaleb(exponent), mant, exponent, len(m.group('int')) + len(frac), 0, bool(m.group('sign')) and mant == 0)


def half_unit(value: float, precision: int) -> Decimal:
    """half a unit of the p-th significant digit of value"""
    d = Decimal(value)
    e = d.adjusted()            # floor(log10 |value|)
    return Decimal(5).scaleb(e - precision)
