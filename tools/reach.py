#!/usr/bin/env python3
"""Which functions of the working-tree sources does no check's workload ever enter?

  tools/reach.py [evidence_dir]      (default: ./evidence)

Reads coverage.repo_functions_entered from every evidence file (recorded by the runner with sys.monitoring on the real
executions), compares with all function definitions found in $VERIF_REPO/src by ast, and lists the ones never entered.
Those are the 'paths the workload never drives': nothing is claimed about them."""
import ast, glob, json, os, sys

HERE = os.path.dirname(os.path.dirname(os.path.abspath(__file__)))
REPO = os.environ.get('VERIF_REPO', '/repo')
evdir = sys.argv[1] if len(sys.argv) > 1 else os.path.join(HERE, 'evidence')
src = os.path.join(REPO, 'src')


def defs(path):
    out = []
    tree = ast.parse(open(path).read())

    def walk(node, prefix, in_func):
        for ch in ast.iter_child_nodes(node):
            if isinstance(ch, (ast.FunctionDef, ast.AsyncFunctionDef)):
                q = prefix + ch.name
                out.append(q)
                walk(ch, q + '.<locals>.', True)
            elif isinstance(ch, ast.ClassDef):
                walk(ch, prefix + ch.name + '.', in_func)
            else:
                walk(ch, prefix, in_func)
    walk(tree, '', False)
    return out


alldefs = {}
for root, _, files in os.walk(os.path.join(src, 'CircuitCalculator')):
    for f in files:
        if f.endswith('.py'):
            p = os.path.join(root, f)
            rel = os.path.relpath(p, src)
            for q in defs(p):
                alldefs[f'{rel}::{q}'] = rel
reached, by = set(), {}
for f in sorted(glob.glob(os.path.join(evdir, 'C*.json'))):
    ev = json.load(open(f))
    names = ev.get('coverage', {}).get('repo_functions_entered', {}).get('names', [])
    reached.update(names)
    for n in names:
        by.setdefault(n, []).append(ev['property_id'])
named = {n for n in reached if '<lambda>' not in n and '<genexpr>' not in n and '<listcomp>' not in n}
miss = sorted(set(alldefs) - named)
print(f'{len(alldefs)} function definitions in the sources; {len(set(alldefs) & named)} entered by at least one check; {len(miss)} never entered')
cur = None
for n in miss:
    rel, q = n.split('::')
    if rel != cur:
        print(f'\n{rel}')
        cur = rel
    print(f'   {q}')
if '--json' in sys.argv:
    json.dump({'defined': len(alldefs), 'entered': len(set(alldefs) & named), 'never_entered': miss}, open(os.path.join(HERE, 'reach.json'), 'w'), indent=1)
