#!/usr/bin/env python3
"""Which functions of the working-tree sources does no check's workload ever enter?

  tools/reach.py [evidence_dir]      (default: ./evidence)

Reads coverage.repo_functions_entered from every evidence file (recorded by the runner with sys.monitoring on the real
executions), compares with all function definitions found in $VERIF_REPO/src by ast, and lists the ones never entered.
Those are the 'paths the workload never drives': nothing is claimed about them."""
import ast, glob, json, os, sys

HERE = os.path.dirname(os.path.dirname(os.path.abspath(__file__)))
REPO = os.environ.get('VERIF_REPO', '/repo')
evdir = sys.argv[1] if len(sys.argv) > 1 else os.path.join(HERE, 'evidence')
src = os.path.join(REPO, 'src')


def defs(path):
    out = []
    tree = ast.parse(open(path).read())

    def walk(node, prefix, in_func):
        for ch in ast.iter_child_nodes(node):
            if isinstance(ch, (ast.FunctionDef, ast.AsyncFunctionDef)):
                q = prefix + ch.name
                out.append(q)
                walk(ch, q + '.<locals>.', True)
            elif isinstance(ch, ast.ClassDef):
                walk(ch, prefix + ch.name + '.', in_func)
            else:
                walk(ch, prefix, in_func)
    walk(tree, '', False)
    return out


alldefs = {}
for root, _, files in os.walk(os.path.join(src, 'CircuitCalculator')):
    for f in files:
        if f.endswith('.py'):
            p = os.path.join(root, f)
            rel = os.path.relpath(p, src)
            for q in defs(p):
                alldefs[f'{rel}::{q}'] = rel
reached, by = set(), {}
for f in sorted(glob.glob(os.path.join(evdir, 'C*.json'))):
    ev = json.load(open(f))
    names = ev.get('coverage', {}).get('repo_functions_entered', {}).get('names', [])
    reached.update(names)
    for n in names:
        by.setdefault(n, []).append(ev['property_id'])
named = {n for n in reached if '<lambda>' not in n and '<genexpr>' not in n and '<listcomp>' not in n}
miss = sorted(set(alldefs) - named)
print(f'{len(alldefs)} function definitions in the sources; {len(set(alldefs) & named)} entered by at least one check; {len(miss)} never entered')
cur = None
for n in miss:
    rel, q = n.split('::')
    if rel != cur:
        print(f'\n{rel}')
        cur = rel
    print(f'   {q}')
if '--json' in sys.argv:
    json.dump({'defined': len(alldefs), 'entered': len(set(alldefs) & named), 'never_entered': miss}, open(os.path.join(HERE, 'reach.json'), 'w'), indent=1)

# ---- line level: statements inside functions that WERE entered but that no workload ever executed (branches never taken) ----
if '--lines' in sys.argv:
    def func_lines(path):
        """executable lines of every function code object (module and class bodies run at import and are left out)"""
        out = {}
        top = compile(open(path).read(), path, 'exec')

        def walk(code, qual, is_func):
            if is_func:
                ls = {ln for _, _, ln in code.co_lines() if ln is not None and ln != code.co_firstlineno}
                out[(qual, code.co_firstlineno)] = ls
            for c in code.co_consts:
                if hasattr(c, 'co_code'):
                    walk(c, c.co_qualname, not c.co_name.startswith('<') or c.co_name in ('<lambda>',))
        walk(top, '', False)
        return out

    def expand(r):
        s = set()
        for part in r.split(','):
            if part:
                a, _, b = part.partition('-')
                s.update(range(int(a), int(b or a) + 1))
        return s
    executed = {}
    for f in sorted(glob.glob(os.path.join(evdir, 'C*.json'))):
        for rel, r in json.load(open(f)).get('coverage', {}).get('repo_lines_executed', {}).get('by_file', {}).items():
            executed.setdefault(rel, set()).update(expand(r))
    print('\n\n=== lines inside entered functions that no check executed ===')
    tot = hit = 0
    report = {}
    for root, _, files in os.walk(os.path.join(src, 'CircuitCalculator')):
        for f in sorted(files):
            if not f.endswith('.py'):
                continue
            p = os.path.join(root, f)
            rel = os.path.relpath(p, src)
            text = open(p).read().split('\n')
            ex = executed.get(rel, set())
            for (qual, first), ls in sorted(func_lines(p).items(), key=lambda kv: kv[0][1]):
                if f'{rel}::{qual}' not in named and '<lambda>' not in qual:
                    continue                                  # never entered at all: listed above
                if not (ls & ex):
                    continue
                tot += len(ls); hit += len(ls & ex)
                for ln in sorted(ls - ex):
                    report.setdefault(rel, []).append((ln, qual, text[ln - 1].strip()[:110]))
    for rel, rows in sorted(report.items()):
        print(f'\n{rel}')
        for ln, qual, txt in rows:
            print(f'   {ln:4d}  [{qual}]  {txt}')
    print(f'\n{hit} of {tot} executable lines inside entered functions were executed by at least one check')
    if '--json' in sys.argv:
        d = json.load(open(os.path.join(HERE, 'reach.json')))
        d['lines_in_entered_functions'] = tot; d['lines_executed'] = hit
        d['lines_never_executed'] = {rel: [[ln, q, t] for ln, q, t in rows] for rel, rows in sorted(report.items())}
        json.dump(d, open(os.path.join(HERE, 'reach.json'), 'w'), indent=1)
