#!/usr/bin/env python3
"""Writes seeded/SUMMARY.md from seeded/*/meta.json."""
import glob, json, os

HERE = os.path.dirname(os.path.dirname(os.path.abspath(__file__)))
rows = []
for f in sorted(glob.glob(os.path.join(HERE, 'seeded', '*', 'meta.json'))):
    m = json.load(open(f))
    name = m['name']
    notes = ''
    np_ = os.path.join(os.path.dirname(f), 'notes.md')
    touched = ''
    pp = os.path.join(os.path.dirname(f), 'patch.diff')
    if os.path.exists(pp):
        files = [l[6:].strip() for l in open(pp) if l.startswith('+++ b/')]
        touched = ', '.join(x.replace('src/CircuitCalculator/', '') for x in files)
    caught = [c for c, r in m.get('checks', {}).items() if r.get('exit') == 1 and r.get('violation_lines', 0) > 0]
    missed = [c for c, r in m.get('checks', {}).items() if r.get('exit') == 0]
    incon = [c for c, r in m.get('checks', {}).items() if r.get('exit') not in (0, 1)]
    keys = []
    for c in caught:
        keys += m['checks'][c].get('keys', [])[:2]
    rows.append((name, m['property'], touched, 'yes' if m.get('own_tests_same_failed_set', True) else 'NO', m.get('pinned_baseline_patched', '?'),
                 ', '.join(caught) or '-', ', '.join(missed) or '-', ', '.join(incon) or '-', '; '.join(keys)[:160], m.get('needs', '')))
with open(os.path.join(HERE, 'seeded', 'SUMMARY.md'), 'w') as f:
    f.write('# Seeded property-breaking changes\n\n')
    f.write('Each change was written by a fresh sub-agent that saw only the text of one property and its own worktree of the repository, and was then '
            'confirmed with `tools/seedcheck.py` (demo exits 0 on a clean copy and non-zero with the patch; the repository\'s own tests keep the same '
            'failed set; the pinned baseline still passes) before being kept. `caught by` lists the checks (quick tier unless stated in meta.json) that '
            'exit 1 with VIOLATION lines when `VERIF_REPO` points at the patched copy; `not caught by` lists checks that were run and stayed silent.\n\n')
    f.write('| seed | property | touches | own tests unchanged | pinned baseline | caught by | not caught by | inconclusive | first mechanism keys |\n|---|---|---|---|---|---|---|---|---|\n')
    for r in rows:
        f.write('| ' + ' | '.join(str(x).replace('|', '/') for x in r[:9]) + ' |\n')
    f.write(f'\n{len(rows)} seeds; caught by at least one check: {sum(1 for r in rows if r[5] != "-")}.\n')
print(open(os.path.join(HERE, 'seeded', 'SUMMARY.md')).read()[-1500:])
