#!/usr/bin/env python3
"""Regenerates MANIFEST.json from the table below (kept next to the checks so they never drift)."""
import json, os, subprocess

HERE = os.path.dirname(os.path.dirname(os.path.abspath(__file__)))

TRUSTED = ("Trusted base: CPython, numpy/scipy (condition numbers/eigenvalues only on the monitor side), fractions/decimal for the "
           "exact oracles, the small reference models in vmon/ref. Held = held on the executions listed in the evidence file, not proved.")

CHECKS = {
    'C01': dict(
        text="Runtime oracle on the real solver: every potential/voltage/current/power reported for thousands of generated well-posed "
             "networks is compared with an exact (rational-arithmetic) sparse-tableau solution in the documented reference directions, "
             "plus a Kirchhoff/potential-difference certificate on the reported numbers; every network is solved a second time with permuted node / source numberings (the mapper extension point). Exploration: reach comes from topology, kind, "
             "label and value diversity; nothing outside the generated executions is claimed.",
        design='5/C01', technique='runtime oracle vs exact reference model + KCL certificate on observed results'),
    'C02': dict(
        text="Runtime oracle on DCSolution/ComplexSolution: for thousands of generated component circuits and analysis frequencies (0, at a "
             "source frequency, just inside/outside the frequency resolution, random) every reported phasor is compared with the exact solution "
             "of an independently tabulated component model (jwL, 1/(jwC), A e^{j phi}, short/open off-frequency), in peak, RMS and DC mode.",
        design='5/C02', technique='runtime oracle vs exact phasor reference model'),
    'C07': dict(
        text="Contract-style oracle on every transform_circuit/transform call made by a workload that covers every component constructor, "
             "edge values, list positions, ground placement and frequency classes: branch id multiset, terminal order, reference node and the "
             "element's Z/Y/V/I (via the element protocol) are compared with an independent component table; periodic sources against the "
             "true Fourier coefficient of their own time function, up to radio-frequency fundamentals and zero resolution (gating judged at float spacing). Bridged components, infinite reactances and components of unknown kind (refused or present) are part of the workload.",
        design='5/C07', technique='postcondition oracle on observed transformations vs independent component table'),
    'C08': dict(
        text="Runtime oracle on the harmonic classes: amplitude/phase/a/b/c of orders 0..40 and random orders up to 600 are compared with a "
             "closed-form integral of the waveform's own sampled time function, plus Parseval with a rigorous total-variation tail bound and "
             "lookup-by-name checks, over amplitudes/phases/offsets/periods of all six wave types. Also: amplitude exactly 0, integer-typed instants, quarter-period instants inside the waveform's range, lookups by equal-but-not-identical names.",
        design='5/C08', technique='runtime oracle: closed-form Fourier integral of the sampled time function'),
    'C06': dict(
        text="Runtime oracle on open_circuit_impedance / element_impedance / short_circuit_current / Thevenin-Norton objects / Circuit.impedance "
             "sweeps: compared with a unit-current injection into the exactly solved deactivated reference network, for every sampled ordered "
             "node pair and element of generated networks (incl. ideal voltage sources away from the port, nodes and node groups hanging on open "
             "branches); relation monitors on the library's own outputs (symmetry, re-referencing, permuted node numbering, exact zeros, Isc=Voc/Zth, load test through "
             "the library's own solver).",
        design='5/C06', technique='runtime oracle vs exact reference + relation monitors between observed executions'),
    'C04': dict(
        text="Relation monitor between library executions: the solution with all sources scaled by a random complex factor, the sum of the "
             "solutions of source groups produced by the library's own zeroing operations (shared keep list), each zeroing operation on its own, "
             "and the all-deactivated network are compared with the full solution (physical current convention), on generated well-posed networks. A stiff-supply / nano-ampere template spans twelve decades with a kappa-following tolerance.",
        design='5/C04', technique='metamorphic relation monitor over pairs/sums of observed executions'),
    'C05': dict(
        text="Invariant monitor on every kind of solution object (network, DC, complex peak/RMS, time-domain on a grid, transient sample-wise): "
             "Tellegen power balance in the stated convention, P against the same object's V and I, resistor/inductor/capacitor sign rules; power lines of the one- and two-sided spectrum (definition, conjugate symmetry, +w and -w lines add up to the average power). The balance is also taken on a solve with a caller's numbering, and solved ComplexSolution objects are switched to the other (peak/RMS) convention and re-judged.",
        design='5/C05', technique='invariant monitor (power balance, definition and sign rules) on observed solutions'),
    'C10': dict(
        text="Runtime oracle on the nodal state-space model: for every published source, every node potential / element voltage / element current "
             "row and a 7-point frequency sweep incl. w=0, C(jwI-A)^-1B+D is compared with the exact phasor response of the reference circuit to that "
             "source alone; state dimension, state identity rows, published source list and the circuit-level wrapper are checked; hostile names; every model is also built with permuted node / source numberings and judged the same way.",
        design='5/C10', technique='runtime oracle: transfer function of the observed model vs exact reference responses'),
    'C11': dict(
        text="Invariant monitor on every state matrix produced for generated positive-element circuits (largest eigenvalue of W A + A^T W, spectral "
             "abscissa) and trace monitor on transient runs (stored energy non-increasing after the inputs returned to zero).",
        design='5/C11', technique='invariant monitor on hooked state matrices + energy trace monitor'),
    'C12': dict(
        text="Trace monitors on TransientSolution runs with per-source different piecewise-linear inputs (incl. inputs already on at the first sample, time axes not starting at 0, integer-typed grids): rest start, KCL at every node and sample, "
             "sources follow their inputs, Ohm's law, agreement of the grids h and h/2, Simpson integral form of C dv/dt and L di/dt, an independent "
             "trapezoidal companion-model reference (Richardson), settling to the exact DC solution.",
        design='5/C12', technique='trace monitors + independent companion-model reference over recorded waveforms'),
    'C16': dict(
        text="Runtime oracle on every Network.transformers operation applied to generated well-posed networks salted with opens and shorts (chains, "
             "stars, parallel shorts, shorts at the reference node): survivors keep id/element, only nameable branches disappear, exempt elements "
             "survive, the simplified network solved by the library equals the exact solution of the original per surviving node and branch, "
             "passive_network's port impedance equals the exact deactivated port impedance, inputs are fingerprinted before/after.",
        design='5/C16', technique='runtime oracle vs exact reference of the original + purity sentinels'),
    'C03': dict(
        text="Pair monitor: an original and a transformed description (hostile bijective renaming of nodes and elements, list permutation, reversed "
             "elements with negated source values, new reference node) are both executed by the real code and related: network solutions and port "
             "impedances, ComplexSolution phasors, state-space transfer values addressed by source name, transient waveforms. Every third transformed network is solved with a caller's node/source numbering; port voltages of element-bridged node pairs are related under the transform.",
        design='5/C03', technique='metamorphic pair monitor over original/transformed executions'),
    'C09': dict(
        text="Runtime oracle on frequency_components / FrequencyDomainSolution (one- and two-sided) / TimeDomainSolution: the analysed frequency list is "
             "matched as clusters against an independently computed set, every spectral line and the time functions on a grid are compared with "
             "exact single-frequency reference phasors (periodic sources through the true Fourier coefficients of their own waveform); KCL at every "
             "instant, additivity over sources and waveform reproduction (Parseval tail bound) are monitored; strata with exact and rounding-only "
             "frequency coincidences; the frequency_components -> transform -> solver pipeline is also run with non-default resolutions; radio-frequency fundamentals and fundamentals below the resolution (the latter a recorded known finding).",
        design='5/C09', technique='runtime oracle vs exact per-frequency references + trace relations on time functions'),
    'C18': dict(
        text="Runtime oracle on str(ScientificFloat)/str(ScientificComplex)/Display.print_*: an independent exact-decimal parser recovers sign, "
             "mantissa, exponent/prefix and unit of every rendered string and compares with the exact binary value (half a unit of the p-th digit), "
             "exponent multiple of three, mantissa range, complex parts/signs/angles, sinusoid labels; bounded-exhaustive over all p-digit mantissas "
             "(p<=3) x all decades x binary64 neighbours x every prefix table, random elsewhere. Two range-rule defects are recorded as known findings.",
        design='5/C18', technique='runtime oracle: independent exact-decimal parser over bounded-exhaustive and random renderings'),
    'C17': dict(
        text="Runtime oracle + purity sentinels on load_network / load_network_from_json / to_complex / undictify_* / serialize / deserialize / "
             "dump / load / undictify_circuit / generate_component: every kind of both loader tables, both complex notations and the degree "
             "option, repeated loads of the same object, nested documents through JSON and YAML (strings and files); loaded elements are "
             "compared with an independent reading of the description, documents structurally, arguments by deep fingerprint before/after.",
        design='5/C17', technique='runtime oracle (independent reading of the description) + before/after fingerprint sentinels'),
    'C19': dict(
        category='fault_enumeration',
        text="Fault enumeration at the API boundary: for each generated valid base description one fault of every anchored class is injected at "
             "every position (all ordered pairs for duplicate ids, every insertion position for a second ground, every sign-checked parameter of "
             "every constructor, every required field of every loader entry, unknown types, unknown ids against all six solution kinds) and the "
             "call must raise; the unfaulted base and the boundary value 0 must be accepted and stored unaltered. The fault space per base is "
             "enumerated completely; the bases are sampled. Annotations of unknown names in declarative descriptions must be refused or left out, foreign schemdraw parts in a drawing refused.",
        design='5/C19', technique='fault injection with a raise/no-raise monitor at the constructor, loader and query boundary'),
    'C20': dict(
        text="Offline history checker: every result observed in random call histories (80-240 calls, repeats, interleavings) over a pool of shared "
             "networks, circuits, documents, keep lists, value dictionaries, input dictionaries and arrays is compared with the result of the same "
             "(operation, description) computed in two fresh interpreters in opposite order; deep fingerprints of all argument objects before/after "
             "each call and of every mutable default / module-level table of the repository modules along the history; arrays returned by spectrum, time-function and transient queries are overwritten by the caller and the queries repeated.",
        design='5/C20', technique='recorded call histories checked against fresh-interpreter baselines + before/after fingerprint sentinels'),
    'C13': dict(
        text="Runtime oracle on circuit_translator / SchematicDiagramParser: drawing programs (embedded random circuits, wire trees, labels, ground, "
             "reverse flags, degree/sine phase input) are built with the library's own symbols and translated; an independent union-find model on the "
             "program's grid coordinates gives the depicted netlist; components are compared by id/kind/value with a node bijection, labels and ground "
             "by name (incl. SchematicDiagramParser.ground_label), and the solved circuit with the exact solution of the depicted netlist (network_translator too, for its symbol subset); each program also under rotation, translation, rescaling, "
             "wire splitting and reordering. One rounding-boundary defect is recorded as a known finding. Drawings include foreign schemdraw parts (must be refused), named ground symbols, unnamed dots on named nodes and the four ways of entering a phase.",
        design='5/C13', technique='runtime oracle: independent turtle/union-find model of the drawing program + metamorphic transforms'),
    'C14': dict(
        text="Runtime oracle on SchematicDiagramSolution.draw_voltage/current/power/potential through all four adapters and on the label symbols that "
             "create_schematic appends: the label text is parsed back by the independent decimal parser (real, Cartesian, polar rad/deg, A cos/sin(wt+phi), "
             "power arrows) and compared with the exact solution of the netlist the drawing depicts, in the translated component's direction, "
             "negated iff reverse, to half a unit of the displayed precision; a potential label must sit on the node symbol it was asked for (also nodes placed with hold()).",
        design='5/C14', technique='runtime oracle: parsed label text vs exact solution of the depicted netlist'),
    'C15': dict(
        text="Round-trip monitor: generated drawings of the persistable symbol set are serialised to JSON (text or file) and reloaded 1-5 times; after "
             "every cycle the translated circuit is compared with the original (ids, kinds, value dictionaries, terminal order, node bijection, "
             "ground); declarative element lists over the handler table with directions, lengths and place_after chains are compared with the "
             "equivalent programmatic construction; reloaded drawings are rendered before they are read.",
        design='5/C15', technique='round-trip/equivalence monitor over observed translations before and after save/load'),
}

NOT_YET = "check not built yet in this round (work in progress; see DESIGN.md section 5)"


def main():
    props = [json.loads(l)['id'] for l in open(os.path.join(HERE, 'properties.jsonl'))]
    try:
        commits = subprocess.run(['git', '-C', '/repo', 'log', '--format=%h %s', '--grep', '^hook:'], capture_output=True, text=True).stdout.split('\n')
        commits = [c.split()[0] for c in commits if c.strip()]
    except Exception:
        commits = []
    man = {
        'version': 1,
        'setup_cmd': "/venv/bin/python -m pip install --quiet --no-index --find-links /opt/veriftools/wheels --target /verif/.deps icontract asttokens || true",
        'hooks': {
            'guard': 'CIRCUITCALCULATOR_VERIF',
            'enable': "no build step: checks import /repo/src in a fresh interpreter with CIRCUITCALCULATOR_VERIF=1; all monitors are attached from the harness (vmon/attach.py), no source hooks are needed",
            'baseline_off_cmd': "cd /repo && /venv/bin/python -m pytest -ra -q -p no:cacheprovider --timeout=900 --continue-on-collection-errors",
            'source_commits': commits,
            'add_only': True,
        },
        'engines': [{'name': 'vmon', 'path': 'vmon/', 'serves_properties': sorted(CHECKS),
                     'kind_free_text': 'runtime monitors (oracles against executable reference models, contracts on hooked calls, metamorphic pair monitors, offline history checkers) driven by seeded hostile workloads in sharded fresh interpreters'}],
        'checks': [],
        'notes': "All checks: ./check <id> --tier quick|thorough; VERIF_SEED seeds every random choice; exit 0 held / 1 VIOLATION / 3 INCONCLUSIVE. "
                 "known_findings.json lists genuine defects (known or fixed).",
        'not_applicable': [],
    }
    for pid in props:
        if pid in CHECKS:
            c = CHECKS[pid]
            man['checks'].append({
                'property_id': pid,
                'quick_cmd': f'./check {pid} --tier quick',
                'thorough_cmd': f'./check {pid} --tier thorough',
                'evidence_file': f'evidence/{pid}.json',
                'replay_cmd_template': f'./check {pid} --replay {{path}}',
                'engine': 'vmon',
                'level_claimed': {'category': c.get('category', 'exploration'), 'text': c['text'], 'design_ref': c['design']},
                'level_note': c.get('note', TRUSTED),
                'technique': c['technique'],
            })
        else:
            man['not_applicable'].append({'property_id': pid, 'reason': NOT_YET})
    with open(os.path.join(HERE, 'MANIFEST.json'), 'w') as f:
        json.dump(man, f, indent=1)
        f.write('\n')


if __name__ == '__main__':
    main()
