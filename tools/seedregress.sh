#!/bin/sh
# Re-runs every kept seeded change against the current checks (quick tier, property's own check) and refreshes seeded/*/meta.json + SUMMARY.md.
# usage: tools/seedregress.sh [seed-name ...]      (default: all)
cd "$(dirname "$0")/.."
names="$@"; [ -z "$names" ] && names=$(ls seeded | grep -v SUMMARY)
fail=0
for n in $names; do
  pid=${n%-*}
  out=$(/venv/bin/python tools/seedcheck.py seeded/$n $pid $n --skip-pytest --skip-baseline 2>&1 | grep -E "^check" | head -1)
  echo "$n: $out" | cut -c1-200
  echo "$out" | grep -q "exit 1" || fail=1
done
/venv/bin/python tools/seedsummary.py > /dev/null
exit $fail
