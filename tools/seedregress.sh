#!/bin/sh
# Re-runs every kept seeded change against the current checks (quick tier, property's own check) and refreshes seeded/*/meta.json + SUMMARY.md.
# usage: tools/seedregress.sh [seed-name ...]      (default: all; JOBS=n runs n seeds at a time, default 6)
cd "$(dirname "$0")/.."
names="$@"; [ -z "$names" ] && names=$(ls seeded | grep -v SUMMARY)
log=$(mktemp /dev/shm/seedregress.XXXXXX)
echo $names | tr ' ' '\n' | xargs -P "${JOBS:-6}" -I{} sh -c 'n={}; pid=${n%-*}; out=$(/venv/bin/python tools/seedcheck.py seeded/$n $pid $n --skip-pytest --skip-baseline 2>&1 | grep -E "^check|DOES NOT APPLY" | head -1); echo "$n: $out" | cut -c1-200' | tee "$log"
fail=0
grep -v "exit 1" "$log" | grep -q . && fail=1
rm -f "$log"
/venv/bin/python tools/seedsummary.py > /dev/null
exit $fail
