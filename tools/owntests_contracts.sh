#!/bin/sh
# The repository's own tests (against $VERIF_REPO/src, not the wheel) as one more workload for the piggy-back contracts.
# Diagnosis only: writes owntests_contracts.json next to this directory's parent; exits 1 only if a contract fired.
HERE=$(cd "$(dirname "$0")/.." && pwd)
REPO=${VERIF_REPO:-/repo}
OUT=${1:-$HERE/owntests_contracts.json}
cd "$REPO" || exit 3
VERIF_OWNTESTS_REPORT="$OUT" PYTHONPATH="$REPO/src:$HERE" MPLBACKEND=Agg PYTHONDONTWRITEBYTECODE=1 PYTHONHASHSEED=0 \
  /venv/bin/python -m pytest -q -p no:cacheprovider -p vmon.pytest_contracts >/dev/null 2>&1
[ -f "$OUT" ] || { echo "INCONCLUSIVE: no report"; exit 3; }
cat "$OUT"
/venv/bin/python - "$OUT" <<'PY'
import json, sys
r = json.load(open(sys.argv[1]))
sys.exit(1 if r['contract_failures'] else (3 if not r['contract_evaluations'] else 0))
PY
