#!/bin/sh
# usage: tools/trymutant.sh <patch-file | -e 'sed-expr' file> -- <check ids...>
# Copies /repo/src to a scratch directory under /dev/shm, applies the patch there, runs the named
# quick checks with VERIF_REPO pointing at the copy, removes the copy.  Evidence files of /verif are
# preserved (the run writes them; they are restored afterwards).
set -u
HERE="$(cd "$(dirname "$0")/.." && pwd)"
SCR="$(mktemp -d /dev/shm/mut.XXXXXX)"
trap 'rm -rf "$SCR"' EXIT
mkdir -p "$SCR/repo"
cp -r /repo/src "$SCR/repo/src"
PATCH="$1"; shift
if [ "$PATCH" = "-e" ]; then
  EXPR="$1"; FILE="$2"; shift 2
  sed -i -e "$EXPR" "$SCR/repo/src/CircuitCalculator/$FILE" || exit 9
  if cmp -s "$SCR/repo/src/CircuitCalculator/$FILE" "/repo/src/CircuitCalculator/$FILE"; then echo "MUTANT-NOOP"; exit 9; fi
else
  (cd "$SCR/repo" && patch -p1 -s < "$PATCH") || { echo "PATCH-FAILED"; exit 9; }
fi
[ "$1" = "--" ] && shift
mkdir -p "$SCR/ev"
rc=0
for id in "$@"; do
  VERIF_EVIDENCE_DIR="$SCR/ev" VERIF_REPO="$SCR/repo" "$HERE/check" "$id" --tier "${TIER:-quick}" > "$SCR/out.$id" 2>&1
  r=$?
  echo "== $id exit=$r: $(grep -c '^VIOLATION' "$SCR/out.$id") violation line(s)"
  grep -E '^(VIOLATION|INCONCLUSIVE)' "$SCR/out.$id" | cut -c1-260 | head -${SHOW:-4}
  [ $r -ne 0 ] && rc=1
done
exit $rc
