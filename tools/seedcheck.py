#!/usr/bin/env python3
"""Confirm a seeded change and record which checks catch it.

usage: tools/seedcheck.py <src-dir with patch.diff + demo.py [+ notes.md]> <property-id> <seed-name> [--checks C01,C03,...] [--tier quick]

Steps (all in scratch copies of /repo under /dev/shm, removed afterwards; /repo itself is never touched):
  1. demo.py exits 0 on the clean tree            2. patch applies; demo.py exits non-zero with it
  3. the repository's own tests (sources on PYTHONPATH) have the same FAILED set with and without the patch
  4. the named checks (default: the property's own check) are run with VERIF_REPO pointing at the patched copy
The result is stored as /verif/seeded/<seed-name>/{patch.diff, demo.py, notes.md, meta.json}.
"""
import argparse, json, os, re, shutil, subprocess, sys, tempfile, time

HERE = os.path.dirname(os.path.dirname(os.path.abspath(__file__)))
PY = '/venv/bin/python'


def run(cmd, cwd=None, env=None, timeout=1800):
    e = dict(os.environ)
    e.update(env or {})
    p = subprocess.run(cmd, cwd=cwd, env=e, capture_output=True, text=True, timeout=timeout)
    return p.returncode, p.stdout + p.stderr


def failed_set(tree):
    rc, out = run([PY, '-m', 'pytest', '-q', '-p', 'no:cacheprovider', '-x', '--co', '-q'], cwd=tree, env={'PYTHONPATH': tree + '/src', 'MPLBACKEND': 'Agg'})
    rc, out = run([PY, '-m', 'pytest', '-q', '-p', 'no:cacheprovider', '--deselect', 'tests/dump_load/test_undictify_complex_value.py'], cwd=tree,
                  env={'PYTHONPATH': tree + '/src', 'MPLBACKEND': 'Agg'})
    return sorted(set(re.findall(r'^FAILED (\S+)', out, re.M))), (re.findall(r'(\d+ failed.*|\d+ passed.*)', out) or ['?'])[-1]


def main():
    ap = argparse.ArgumentParser()
    ap.add_argument('src'); ap.add_argument('pid'); ap.add_argument('name')
    ap.add_argument('--checks', default=None); ap.add_argument('--tier', default='quick'); ap.add_argument('--skip-pytest', action='store_true'); ap.add_argument('--skip-baseline', action='store_true'); ap.add_argument('--base', default=None, help='commit of /repo the change was written against (default: HEAD, or base_commit recorded in the meta.json of an earlier run)')
    a = ap.parse_args()
    checks = a.checks.split(',') if a.checks else [a.pid]
    scratch = tempfile.mkdtemp(prefix='seed.', dir='/dev/shm')
    old_meta_path = os.path.join(HERE, 'seeded', a.name, 'meta.json')
    if a.base is None and os.path.exists(old_meta_path):
        a.base = json.load(open(old_meta_path)).get('base_commit')
    base = a.base or 'HEAD'
    meta = {'property': a.pid, 'name': a.name, **({'base_commit': a.base, 'base_note': 'the change only exists against this earlier commit of /repo: a later fix: commit rewrote the lines it touches and made it harmless'} if a.base else {}), 'confirmed_at': time.strftime('%Y-%m-%d %H:%M:%S'), 'repo_head': run(['git', '-C', '/repo', 'rev-parse', '--short', 'HEAD'])[1].strip()}
    try:
        clean, patched = scratch + '/clean', scratch + '/patched'
        for t in (clean, patched):
            os.makedirs(t)
            run(['git', '-C', '/repo', 'archive', base, '--format=tar', '-o', t + '.tar'])
            run(['tar', '-xf', t + '.tar', '-C', t]); os.remove(t + '.tar')
        rc, out = run(['git', 'apply', '--whitespace=nowarn', os.path.abspath(a.src + '/patch.diff')], cwd=patched)
        meta['patch_applies'] = rc == 0
        if rc != 0:
            # the repository has moved on since the change was written (later fix: commits): retry with context fuzz
            rc2, out2 = run(['patch', '-p1', '-s', '--fuzz=3', '--no-backup-if-mismatch', '-i', os.path.abspath(a.src + '/patch.diff')], cwd=patched)
            if rc2 == 0:
                rc, meta['patch_applies'], meta['patch_applied_with_fuzz'] = 0, True, True
                run(['find', patched, '-name', '*.orig', '-delete'])
        if rc != 0:
            print('PATCH DOES NOT APPLY', out[-500:]); meta['error'] = out[-500:]
            return finish(a, meta, keep=False)
        env = {'MPLBACKEND': 'Agg'}
        rc0, o0 = run([PY, os.path.abspath(a.src + '/demo.py')], cwd=clean, env={**env, 'PYTHONPATH': clean + '/src'}, timeout=600)
        rc1, o1 = run([PY, os.path.abspath(a.src + '/demo.py')], cwd=patched, env={**env, 'PYTHONPATH': patched + '/src'}, timeout=600)
        meta['demo_exit_clean'], meta['demo_exit_patched'] = rc0, rc1
        meta['demo_tail_patched'] = o1.strip().splitlines()[-1][:300] if o1.strip() else ''
        print(f'demo: clean exit {rc0}, patched exit {rc1}: {meta["demo_tail_patched"]}')
        if not a.skip_pytest:
            f0, s0 = failed_set(clean)
            f1, s1 = failed_set(patched)
            meta['own_tests_clean'], meta['own_tests_patched'], meta['own_tests_same_failed_set'] = s0, s1, f0 == f1
            print(f'own tests: clean [{s0}] patched [{s1}] same failed set: {f0 == f1}')
            if f0 != f1:
                meta['own_tests_new_failures'] = sorted(set(f1) - set(f0))
        if not a.skip_baseline:
            base = subprocess.run([PY, '-m', 'pytest', '-q', '-p', 'no:cacheprovider', '--timeout=900', '--continue-on-collection-errors'], cwd=patched, capture_output=True, text=True)
            meta['pinned_baseline_patched'] = (re.findall(r'(\d+ failed.*|\d+ passed.*)', base.stdout) or ['?'])[-1]
        os.makedirs(scratch + '/ev')
        meta['checks'] = {}
        for c in checks:
            t0 = time.time()
            rc, out = run([HERE + '/check', c, '--tier', a.tier], cwd=HERE, env={'VERIF_REPO': patched, 'VERIF_EVIDENCE_DIR': scratch + '/ev'}, timeout=3600)
            keys = sorted(set(re.findall(r'# (\S+):', out)))
            meta['checks'][c] = {'exit': rc, 'violation_lines': len(re.findall(r'^VIOLATION', out, re.M)), 'keys': keys[:12], 'wall_s': round(time.time() - t0, 1),
                                 'inconclusive': re.findall(r'^INCONCLUSIVE.*', out, re.M)[:2]}
            print(f'check {c}: exit {rc}, {meta["checks"][c]["violation_lines"]} violation line(s): {keys[:4]}')
        ok = meta['patch_applies'] and rc0 == 0 and rc1 != 0
        return finish(a, meta, keep=ok)
    finally:
        shutil.rmtree(scratch, ignore_errors=True)


def finish(a, meta, keep):
    meta['kept'] = keep
    if keep:
        dst = os.path.join(HERE, 'seeded', a.name)
        os.makedirs(dst, exist_ok=True)
        for f in ('patch.diff', 'demo.py', 'notes.md'):
            if os.path.exists(os.path.join(a.src, f)) and os.path.realpath(os.path.join(a.src, f)) != os.path.realpath(os.path.join(dst, f)):
                shutil.copy(os.path.join(a.src, f), os.path.join(dst, f))
        old = {}
        if os.path.exists(os.path.join(dst, 'meta.json')):
            old = json.load(open(os.path.join(dst, 'meta.json')))
            for k, v in old.get('checks', {}).items():
                meta.setdefault('checks', {}).setdefault(k, v)
            for k, v in old.items():
                if k not in meta:
                    meta[k] = v           # fields confirmed by an earlier, fuller run (own tests, pinned baseline, needs, history, ...)
        json.dump(meta, open(os.path.join(dst, 'meta.json'), 'w'), indent=1)
    print('KEPT' if keep else 'NOT KEPT', json.dumps({k: v for k, v in meta.items() if k != 'checks'})[:400])
    return 0 if keep else 2


if __name__ == '__main__':
    sys.exit(main())
